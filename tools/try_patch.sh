#!/bin/bash
# tools/try_patch.sh <patch.diff> <PROPERTY>...
# Applies a deliberately breaking change to /repo, confirms that the repository's own test
# suite still passes, runs the quick check of each named property (expecting exit 1 and a
# replay that reproduces), and restores /repo. Outputs go to a scratch directory, never to
# /verif/evidence. Prints one summary line per property:
#   <patch> <PROP> caught|MISSED|harness-error <oracle> <seconds>
set -u
patch=$(readlink -f "$1"); shift
scratch=$(mktemp -d /tmp/trypatch.XXXXXX)
trap 'git -C /repo checkout -- . 2>/dev/null; rm -rf "$scratch"' EXIT
if ! git -C /repo diff --quiet; then echo "refusing: /repo has uncommitted changes" >&2; exit 2; fi
if ! git -C /repo apply "$patch"; then echo "$patch: does not apply" >&2; exit 2; fi
if [ "${SKIP_SUITE:-0}" != 1 ]; then
  if ! (cd /repo && cargo test --offline >"$scratch/suite.log" 2>&1); then
    echo "$(basename $(dirname $patch))/$(basename $patch) SUITE-FAILS (the change is caught by the existing tests)"
    grep -E "^test .* FAILED|panicked" "$scratch/suite.log" | head -5
    exit 3
  fi
fi
for prop in "$@"; do
  start=$(date +%s.%N)
  VERIF_EVIDENCE_DIR="$scratch/ev" VERIF_REPLAY_DIR="$scratch/rp" /verif/bin/check "$prop" quick >"$scratch/$prop.log" 2>&1
  code=$?
  secs=$(printf "%.1f" $(echo "$(date +%s.%N) - $start" | bc))
  oracle=$(sed -n 's/^  oracle \([A-Za-z0-9_.]*\):.*/\1/p' "$scratch/$prop.log" | head -1)
  case $code in
    1) echo "$patch $prop caught ${oracle:-?} ${secs}s"
       [ "${VERBOSE:-0}" = 1 ] && sed -n '/^  oracle/,$p' "$scratch/$prop.log" ;;
    0) echo "$patch $prop MISSED - ${secs}s" ;;
    *) echo "$patch $prop harness-error - ${secs}s"; tail -5 "$scratch/$prop.log" ;;
  esac
done
