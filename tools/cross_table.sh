#!/bin/bash
# tools/cross_table.sh <out.tsv> <patch>...
# Runs the quick check of EVERY claimed property against each deliberately breaking change,
# entirely in scratch copies (a git worktree of /repo and a copy of /verif/sim wired to it),
# so neither /repo nor /verif is touched and both may be edited meanwhile.
# Output: one line per (patch, property): patch <TAB> property <TAB> caught|missed|error <TAB> oracle
set -u
out=$(readlink -f "$1"); shift
SCR=$(mktemp -d /tmp/cross.XXXXXX)
export CARGO_NET_OFFLINE=true
git -C /repo worktree add -q --detach "$SCR/repo" HEAD
mkdir -p "$SCR/sim"
rsync -a --exclude target "${SIMSRC:-/verif/sim}/" "$SCR/sim/"
sed -i "s|path = \"/repo\"|path = \"$SCR/repo\"|" "$SCR/sim/Cargo.toml"
trap 'git -C /repo worktree remove --force "$SCR/repo" 2>/dev/null; rm -rf "$SCR"' EXIT
props="${PROPS:-C01 C02 C03 C04 C05 C06 C10 C13 C14 C15 C17 C18}"
: > "$out"
for patch in "$@"; do
  patch=$(readlink -f "$patch")
  name=$(echo "$patch" | sed 's|.*/verif/||')
  git -C "$SCR/repo" checkout -q -- .
  if ! git -C "$SCR/repo" apply "$patch" 2>/dev/null; then echo -e "$name\t-\terror\tdoes-not-apply" >> "$out"; continue; fi
  if ! (cd "$SCR/sim" && cargo build --offline --profile simdev >"$SCR/build.log" 2>&1); then echo -e "$name\t-\terror\tbuild" >> "$out"; continue; fi
  plist="$props"; [ "${TARGET_ONLY:-0}" = 1 ] && plist=$(echo "$patch" | grep -oE "C[0-9]{2}" | head -1)
  for prop in $plist; do
    DTR_SIM_HANG_CPU_SECS=${HANG_SECS:-6} "$SCR/sim/target/simdev/dtr-sim" check $prop --tier ${TIER:-quick} ${RUNS:+--runs $RUNS} --no-shrink --replay-dir "$SCR/rp" --known /dev/null >"$SCR/run.log" 2>&1
    code=$?
    oracle=$(sed -n 's/^  oracle \([A-Za-z0-9_.]*\):.*/\1/p' "$SCR/run.log" | head -1)
    case $code in
      1) echo -e "$name\t$prop\tcaught\t${oracle:-?}" >> "$out" ;;
      0) echo -e "$name\t$prop\tmissed\t-" >> "$out" ;;
      *) echo -e "$name\t$prop\terror\t$(tail -1 "$SCR/run.log")" >> "$out" ;;
    esac
  done
done
git -C "$SCR/repo" checkout -q -- .
