#!/bin/bash
# tools/verify_seeded.sh <dir with patch.diff and demo.rs> [cargo test extra args]
# Confirms, in the scratch worktree /tmp/wt/own (never in /repo), that
#   1. the existing suite passes with the patch,
#   2. the demonstration fails with the patch,
#   3. the demonstration passes without it.
set -u
dir=$(readlink -f "$1"); shift
WT=/tmp/wt/own
export CARGO_NET_OFFLINE=true
[ -d $WT ] || git -C /repo worktree add -q --detach $WT HEAD
git -C $WT checkout -q --detach $(git -C /repo rev-parse HEAD) 2>/dev/null
git -C $WT checkout -- . ; rm -f $WT/tests/demo_seeded.rs
feat=""
grep -q verif_hooks "$dir/demo.rs" && feat="--features verif-hooks"
git -C $WT apply "$dir/patch.diff" || { echo "$dir: patch does not apply"; exit 2; }
(cd $WT && cargo test --offline >/tmp/vs_suite.log 2>&1); suite=$?
cp "$dir/demo.rs" $WT/tests/demo_seeded.rs
(cd $WT && cargo test --offline $feat --test demo_seeded "$@" >/tmp/vs_with.log 2>&1); with=$?
git -C $WT checkout -- .
(cd $WT && cargo test --offline $feat --test demo_seeded "$@" >/tmp/vs_without.log 2>&1); without=$?
rm -f $WT/tests/demo_seeded.rs
ok=no; [ $suite = 0 ] && [ $with != 0 ] && [ $without = 0 ] && ok=yes
echo "$dir suite_with_patch=$suite demo_with_patch=$with demo_without_patch=$without confirmed=$ok"
grep -E "^test result" /tmp/vs_with.log | head -2
[ $ok = yes ]
