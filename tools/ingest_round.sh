#!/bin/bash
# tools/ingest_round.sh <round> <PROP> <worktree>   (e.g. 8 C13 /tmp/wt/r8-C13)
# Copies the changes a sub-agent left in <worktree>/out/mN into /verif/seeded/<PROP>-r<round>mN/
# and confirms each with tools/verify_seeded.sh. Prints one line per change.
set -u
round=$1; prop=$2; wt=$3
V=$(cd "$(dirname "$(readlink -f "$0")")/.." && pwd)
for m in "$wt"/out/m[0-9]*; do
  [ -f "$m/patch.diff" ] || continue
  id="$prop-r${round}$(basename $m)"
  dst="$V/seeded/$id"
  mkdir -p "$dst"
  cp "$m/patch.diff" "$m/demo.rs" "$dst/"
  [ -f "$m/notes.md" ] && cp "$m/notes.md" "$dst/"
  if git -C /repo apply --check "$dst/patch.diff" 2>/dev/null; then
    "$V/tools/verify_seeded.sh" "$dst" 2>&1 | grep confirmed= | sed "s|$V/seeded/||"
  else
    echo "$id patch does not apply to /repo HEAD"
  fi
done
