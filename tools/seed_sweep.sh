#!/bin/bash
# tools/seed_sweep.sh <first seed> <last seed> [tier]
# Zero-alarm discipline: runs every claimed check under many VERIF_SEED values on the
# unchanged tree; every run must exit 0. Outputs go to a scratch directory.
set -u
here=$(cd "$(dirname "$(readlink -f "$0")")/.." && pwd)
tier=${3:-quick}
scratch=$(mktemp -d /tmp/sweep.XXXXXX)
bad=0; n=0
for seed in $(seq $1 $2); do
  for prop in C01 C02 C03 C04 C05 C06 C10 C13 C14 C15 C17 C18; do
    n=$((n+1))
    VERIF_SEED=$seed VERIF_EVIDENCE_DIR=$scratch/ev VERIF_REPLAY_DIR=$scratch/rp $here/bin/check $prop $tier > $scratch/out.log 2>&1
    code=$?
    if [ $code != 0 ]; then bad=$((bad+1)); echo "seed=$seed $prop exit=$code"; grep -E "oracle|VIOLATION|HARNESS" $scratch/out.log | head -5; cp -r $scratch/rp /tmp/sweep_replays_${seed}_$prop 2>/dev/null; fi
  done
  echo "seed $seed done ($n runs so far, $bad alarms)"
done
echo "sweep finished: $n check runs, $bad alarms"
rm -rf $scratch
[ $bad = 0 ]
