#!/usr/bin/env python3
"""tools/mkmeta.py <round> <first.tsv> <final.tsv> <origin text> [notes.json]
Writes seeded/<id>/meta.json for every change of that round from the two targeted tables
(first run with the machinery as it stood, final run) and the first line of its notes.md."""
import json, os, sys
rnd, first_f, final_f, origin = sys.argv[1], sys.argv[2], sys.argv[3], sys.argv[4]
notes_fix = json.load(open(sys.argv[5])) if len(sys.argv) > 5 else {}
V = os.path.dirname(os.path.dirname(os.path.abspath(__file__)))
def table(f):
    t = {}
    for l in open(f):
        a = l.rstrip('\n').split('\t')
        if len(a) >= 4:
            t[a[0].split('/')[1]] = (a[2], a[3])
    return t
first, final = table(first_f), table(final_f)
def norm(r):
    if r[0] == 'error':
        return {'result': 'harness-error (seen, replay did not reproduce)', 'oracle': '-'}
    return {'result': r[0], 'oracle': r[1]}
for d in sorted(os.listdir(V + '/seeded')):
    if f'-r{rnd}m' not in d:
        continue
    base = f'{V}/seeded/{d}'
    notes = open(base + '/notes.md').read() if os.path.exists(base + '/notes.md') else ''
    head = notes.strip().split('\n')[0] if notes else ''
    meta = {
        'id': d, 'property': d[:3], 'round': int(rnd), 'origin': origin,
        'needs_to_manifest': head,
        'confirmed_by': "tools/verify_seeded.sh (scratch worktree): existing suite passes with the patch (exit 0); demonstration fails with the patch (exit 101) and passes without it (exit 0)",
        'demo': "demo.rs is an integration test: copy to tests/ of a checkout and run cargo test --offline --test <name>",
        'targeted_check_first_run': norm(first.get(d, ('?', '?'))),
        'targeted_check': {'command': f"TARGET_ONLY=1 tools/cross_table.sh out.tsv seeded/{d}/patch.diff", **norm(final.get(d, ('?', '?')))},
    }
    if d in notes_fix:
        meta['notes'] = notes_fix[d]
    json.dump(meta, open(base + '/meta.json', 'w'), indent=1)
    print(d, first.get(d), final.get(d))
