#!/bin/bash
# tools/determinism.sh [runs]
# Proves replay determinism on a sample: for every claimed property the per-run fingerprints
# (case hash, event-log hash, behaviour signature) of the first <runs> runs are computed in
# separate processes at worker counts 1, 4 and 16, twice each, and under two different seeds,
# and compared. Any difference is a harness error (exit 2).
set -u
runs=${1:-5000}
bin=/verif/sim/target/simdev/dtr-sim
(cd /verif/sim && CARGO_NET_OFFLINE=true cargo build --offline --profile simdev >/dev/null 2>&1) || { echo "build failed"; exit 2; }
tmp=$(mktemp -d /tmp/determinism.XXXXXX); trap 'rm -rf $tmp' EXIT
bad=0; total=0
for seed in 219551649 1; do
 for prop in C01 C02 C03 C04 C05 C06 C10 C13 C14 C15 C17 C18; do
  n=$runs; [ $prop = C13 ] && n=$((runs/20+1))
  i=0
  for jobs in 1 4 16 16 4 1; do
    i=$((i+1))
    $bin hashes $prop --runs $n --jobs $jobs --seed $seed > $tmp/$prop.$i &
  done
  wait
  for i in 2 3 4 5 6; do
    total=$((total+1))
    if ! cmp -s $tmp/$prop.1 $tmp/$prop.$i; then bad=$((bad+1)); echo "MISMATCH $prop seed=$seed run set $i: $(diff $tmp/$prop.1 $tmp/$prop.$i | head -3)"; fi
  done
  echo "$prop seed=$seed: $n runs x 6 processes (workers 1,4,16,16,4,1) identical: $([ $bad = 0 ] && echo yes || echo NO)"
 done
done
echo "comparisons=$total mismatches=$bad"
[ $bad = 0 ] || exit 2
