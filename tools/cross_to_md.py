#!/usr/bin/env python3
"""tools/cross_to_md.py sensitivity/cross.tsv > sensitivity/cross.md
Renders the cross table (every quick check against every deliberately breaking change) as
markdown: one row per change, one column per property; the cell holds the oracle that fired
('.' = the check passed, '!' = harness error). The targeted property is marked with *."""
import sys, re, collections
rows = collections.OrderedDict()
props = "C01 C02 C03 C04 C05 C06 C10 C13 C14 C15 C17 C18".split()
for l in open(sys.argv[1]):
    f = l.rstrip("\n").split("\t")
    if len(f) < 4: continue
    name, prop, res, oracle = f[:4]
    name = name.replace("seeded/","").replace("/patch.diff","").replace("mutants/","").replace(".diff","")
    rows.setdefault(name, {})[prop] = (res, oracle)
def cell(name, p):
    r = rows[name].get(p)
    if r is None: return "?"
    res, oracle = r
    tgt = "*" if name.startswith(p) else ""
    if res == "caught": return tgt + oracle.replace(p + ".", "")
    if res == "missed": return tgt + "."
    return tgt + "!"
print("| change | " + " | ".join(props) + " |")
print("|---|" + "---|" * len(props))
caught_t = missed_t = 0
missed = []
for name in rows:
    print("| " + name + " | " + " | ".join(cell(name, p) for p in props) + " |")
    t = name[:3]
    r = rows[name].get(t)
    if r:
        if r[0] == "caught": caught_t += 1
        else:
            missed_t += 1; missed.append(name)
any_caught = sum(1 for n in rows if any(v[0]=="caught" for v in rows[n].values()))
print()
print(f"{len(rows)} changes; caught by the targeted property's check: {caught_t}; not: {missed_t} ({', '.join(missed)}); caught by at least one check: {any_caught}.")
