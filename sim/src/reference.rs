//! Reference model: a small sequential interpreter for the test language, written from the
//! property statements on the generating model AST. It shares no code with the crate. It
//! drives its own instance of the (pure) DUT model, so that the real run and the reference
//! run can be compared step by step.

use crate::dut::{DutModel, DutSpec, ModelAnswer, SigId};
use crate::model::*;
use crate::run::Draw;
use std::collections::HashMap;

#[derive(Clone, Copy, Debug, PartialEq, Eq, Hash)]
pub enum ErrClass {
    /// an expression read a device output whose value is Z or X
    ZxRead,
    DivZero,
    /// a variable that was never assigned on the executed path (and is not a signal name)
    Unassigned,
    EmptyRandom,
    NotImplemented,
    /// the driver's answer for a checked row differs from its first answer in number or order
    LayoutDeviation,
    /// the program reads an output which the driver does not supply (constructor)
    MissingOutputs,
}

#[derive(Clone, Copy, Debug, PartialEq, Eq, Hash)]
pub enum CallKind {
    /// output-reading call
    RW,
    /// write-only call
    W,
}

#[derive(Clone, Debug, PartialEq, Eq)]
pub struct RefCall {
    pub kind: CallKind,
    /// one value per input-capable signal, in signal-list order
    pub inputs: Vec<InVal>,
}

#[derive(Clone, Debug, PartialEq, Eq)]
pub enum RefItem {
    Row {
        inputs: Vec<InVal>,
        /// per output-capable or virtual signal (by name): expected and output;
        /// empty for the two mid-clock rows
        outputs: Vec<(String, ExpVal, OutVal)>,
    },
    RuntimeErr(ErrClass),
    DriverErr(u64),
    End,
}

#[derive(Clone, Debug)]
pub struct RefStep {
    pub call: Option<RefCall>,
    pub item: RefItem,
    /// the variables in scope when this row was evaluated (sorted, innermost binding wins)
    pub env: Vec<(String, i64)>,
    /// running number of the evaluated source row this step belongs to
    pub src_row: usize,
    /// index of this step within the expansion of its source row
    pub sub: usize,
    /// number of input-X columns and C columns of the source row
    pub nx: usize,
    pub nc: usize,
    /// which statement (pre-order index) the source row is
    pub stmt_id: usize,
    /// an error item after which the reference knows how the run goes on (a virtual signal
    /// that could not be evaluated: the row itself was executed completely)
    pub continues: bool,
}

#[derive(Clone, Debug, PartialEq, Eq)]
pub enum RefCtor {
    Ok,
    DriverErr(u64),
    RuntimeErr(ErrClass),
}

pub const N_PROBES: usize = 41;

#[derive(Clone, Copy, Debug, PartialEq, Eq)]
#[repr(usize)]
pub enum Probe {
    ZeroTripLoop = 0,
    NegativeBound,
    DeviceSteeredBound,
    DeviceSteeredWhile,
    WhileExitsOnFirstTest,
    LetInWhileInLoop,
    ShadowDepth2,
    ShadowDepth3,
    ShadowUncoveredOnLoopExit,
    RepeatNextToOuterN,
    Bits,
    RowX1,
    RowX2,
    RowX3plus,
    RowC1,
    RowC2plus,
    RowXandC,
    ExpansionInsideLoop,
    HeldExprWhileOutputMoved,
    ReadBeforeFirstRow,
    VariableShadowsOutput,
    ReadInRow,
    ReadInLet,
    VirtualEvaluated,
    VirtualReadsZx,
    ZxRead,
    DivZero,
    Unassigned,
    EmptyRandom,
    NotImplemented,
    WrappedArith,
    LayoutDeviation,
    DriverError,
    DriverErrorInsideTriple,
    RandomDraw,
    RandomInUnselectedIte,
    ResetRandom,
    DrawSteersControl,
    LoopDepth3,
    NestedLoopInWhile,
    ContinuedAfterFailedStatement,
}

pub const PROBE_NAMES: [&str; N_PROBES] = [
    "zero_trip_loop",
    "negative_bound",
    "device_steered_bound",
    "device_steered_while",
    "while_exits_on_first_test",
    "let_in_while_in_loop",
    "shadow_depth_2",
    "shadow_depth_3",
    "shadow_uncovered_on_loop_exit",
    "repeat_next_to_outer_n",
    "bits_entry",
    "row_with_1_input_x",
    "row_with_2_input_x",
    "row_with_3plus_input_x",
    "row_with_1_clock",
    "row_with_2plus_clocks",
    "row_with_x_and_clock",
    "expansion_inside_loop",
    "held_expr_while_output_moved",
    "read_before_first_row",
    "variable_shadows_output",
    "output_read_in_row",
    "output_read_in_let_or_bound",
    "virtual_evaluated",
    "virtual_reads_zx",
    "zx_read_error",
    "div_zero_error",
    "unassigned_variable_error",
    "empty_random_error",
    "not_implemented_error",
    "wrapped_arithmetic",
    "layout_deviation_error",
    "driver_error",
    "driver_error_inside_clock_triple",
    "random_draw",
    "random_in_unselected_ite",
    "reset_random",
    "draw_steers_control_flow",
    "loop_depth_3",
    "loop_inside_while",
    "continued_after_failed_let_or_row",
];

#[derive(Clone, Debug)]
pub struct RefRun {
    pub ctor_inputs: Vec<InVal>,
    pub ctor: RefCtor,
    pub steps: Vec<RefStep>,
    /// the step cap ended the run
    pub truncated: bool,
    /// the run reached something the properties deliberately leave open; steps from this
    /// index on (and the end of the run) must not be compared
    pub unspecified: Option<(usize, String)>,
    /// the reference relied on wrapping arithmetic / out-of-range shift counts
    pub wrapped: bool,
    pub probes: [u32; N_PROBES],
    /// the logged draws did not line up with the reference's `random` evaluations
    /// first step that belongs to a row whose entries made two or more draws: which entry
    /// got which value depends on the (unspecified) order in which entries are evaluated
    pub multi_draw_step: Option<usize>,
    pub draw_mismatch: Option<String>,
    /// number of logged draw events the reference consumed, and how many there were
    pub draws_used: usize,
    pub draws_total: usize,
    /// names of the outputs the program reads (lexically), in first-occurrence order
    pub read_outputs: Vec<String>,
    pub is_static: bool,
}

enum Stop {
    Err(ErrClass),
    DriverErr(u64),
    Cap,
    Unspecified(String),
}

#[derive(Clone, Debug, PartialEq)]
enum Ev {
    Num(i64),
    X,
    Z,
    C,
}

pub struct RefInput<'a> {
    pub signals: &'a [SigSpec],
    pub program: &'a Program,
    pub dut: &'a DutSpec,
    /// all draw events of the real run, in order (constructor first)
    pub draws: &'a [Draw],
    pub max_steps: usize,
    /// order in which the library lists the virtual signals (from the real signal list)
    pub virtual_order: &'a [String],
    /// the caller keeps iterating after error items
    pub continue_after_error: bool,
}

struct Interp<'a> {
    inp: &'a RefInput<'a>,
    dut: DutModel,
    lexical_var: HashMap<*const Expr, bool>,
    frames: Vec<Vec<(String, i64)>>,
    /// per frame: name -> position in the frame (lookups only; keeps huge environments fast)
    frame_index: Vec<HashMap<String, usize>>,
    /// per frame: the counter of the loop that opened it
    frame_counters: Vec<Option<String>>,
    outputs: HashMap<String, OutVal>,
    first_layout: Vec<SigId>,
    calls: u64,
    rw_calls: u64,
    steps: Vec<RefStep>,
    probes: [u32; N_PROBES],
    wrapped: bool,
    draw_pos: usize,
    multi_draw_step: Option<usize>,
    draw_mismatch: Option<String>,
    src_rows: usize,
    loop_depth: usize,
    while_depth: usize,
    /// names of test signals (config signals, then virtual)
    sig_names: Vec<String>,
    virtuals: Vec<(String, &'a Expr)>,
    in_virtual: bool,
    /// a layout deviation has happened (continue mode)
    deviated: bool,
    /// per evaluated identifier bookkeeping for the "output moved" probe
    last_answer_changed: bool,
    stmt_counter: usize,
}

/// Lexical analysis mirroring the language's scoping rule: `loop`/`repeat` open a scope,
/// `while` does not, `let` is visible after its own statement, `declare` sees no variables.
fn lexical(
    stmts: &[Stmt],
    scopes: &mut Vec<std::collections::HashSet<String>>,
    out: &mut HashMap<*const Expr, bool>,
    reads: &mut Vec<String>,
    reads_set: &mut std::collections::HashSet<String>,
) {
    fn visit(
        e: &Expr,
        scopes: &[std::collections::HashSet<String>],
        out: &mut HashMap<*const Expr, bool>,
        reads: &mut Vec<String>,
        reads_set: &mut std::collections::HashSet<String>,
    ) {
        match e {
            Expr::Num(_) => {}
            Expr::Id(name) => {
                let is_var = scopes.iter().any(|s| s.contains(name));
                out.insert(e as *const Expr, is_var);
                if !is_var && reads_set.insert(name.clone()) {
                    reads.push(name.clone());
                }
            }
            Expr::Un(_, a) | Expr::Random(a) => visit(a, scopes, out, reads, reads_set),
            Expr::Bin(_, a, b) | Expr::SignExt(a, b) => {
                visit(a, scopes, out, reads, reads_set);
                visit(b, scopes, out, reads, reads_set);
            }
            Expr::Ite(c, a, b) => {
                visit(c, scopes, out, reads, reads_set);
                visit(a, scopes, out, reads, reads_set);
                visit(b, scopes, out, reads, reads_set);
            }
        }
    }
    for s in stmts {
        match s {
            Stmt::Let(name, e) => {
                visit(e, scopes, out, reads, reads_set);
                scopes.last_mut().unwrap().insert(name.clone());
            }
            Stmt::Row(entries) => {
                for en in entries {
                    if let Some(e) = en.expr() {
                        visit(e, scopes, out, reads, reads_set);
                    }
                }
            }
            Stmt::Loop(var, bound, body) => {
                visit(bound, scopes, out, reads, reads_set);
                scopes.push([var.clone()].into_iter().collect());
                lexical(body, scopes, out, reads, reads_set);
                scopes.pop();
            }
            Stmt::Repeat(bound, entries) => {
                visit(bound, scopes, out, reads, reads_set);
                scopes.push(["n".to_string()].into_iter().collect());
                for en in entries {
                    if let Some(e) = en.expr() {
                        visit(e, scopes, out, reads, reads_set);
                    }
                }
                scopes.pop();
            }
            Stmt::While(cond, body) => {
                visit(cond, scopes, out, reads, reads_set);
                lexical(body, scopes, out, reads, reads_set);
            }
            Stmt::ResetRandom => {}
            Stmt::Declare(_, e) => {
                let empty = vec![std::collections::HashSet::new()];
                visit(e, &empty, out, reads, reads_set);
            }
        }
    }
}

/// the outputs a program reads, by the language's lexical rule
pub fn read_outputs(program: &Program) -> Vec<String> {
    let mut map = HashMap::new();
    let mut reads = vec![];
    lexical(
        &program.stmts,
        &mut vec![std::collections::HashSet::new()],
        &mut map,
        &mut reads,
        &mut std::collections::HashSet::new(),
    );
    reads
}

impl<'a> Interp<'a> {
    fn probe(&mut self, p: Probe) {
        self.probes[p as usize] += 1;
    }

    fn lookup_var(&self, name: &str) -> Option<(i64, usize)> {
        // innermost binding wins; also report how many bindings of that name exist
        let mut found = None;
        let mut count = 0;
        for (f, idx) in self.frames.iter().zip(self.frame_index.iter()).rev() {
            if let Some(pos) = idx.get(name) {
                if found.is_none() {
                    found = Some(f[*pos].1);
                }
                count += 1;
            }
        }
        found.map(|v| (v, count))
    }

    fn set_var(&mut self, name: &str, v: i64) {
        let top = self.frames.last_mut().unwrap();
        let idx = self.frame_index.last_mut().unwrap();
        if let Some(pos) = idx.get(name) {
            top[*pos].1 = v;
        } else {
            idx.insert(name.to_string(), top.len());
            top.push((name.to_string(), v));
        }
    }

    fn env(&self) -> Vec<(String, i64)> {
        // innermost binding wins (membership only, no iteration over the set)
        let mut seen: std::collections::HashSet<&str> = std::collections::HashSet::new();
        let mut out: Vec<(String, i64)> = vec![];
        for f in self.frames.iter().rev() {
            for (n, v) in f {
                if seen.insert(n.as_str()) {
                    out.push((n.clone(), *v));
                }
            }
        }
        out.sort();
        out
    }

    fn next_draw(&mut self) -> Option<Draw> {
        let d = self.inp.draws.get(self.draw_pos).copied();
        if d.is_some() {
            self.draw_pos += 1;
        }
        d
    }

    fn eval(&mut self, e: &Expr) -> Result<i64, Stop> {
        match e {
            Expr::Num(n) => Ok(*n),
            Expr::Id(name) => {
                let lexical_var = if self.in_virtual {
                    false
                } else {
                    *self.lexical_var.get(&(e as *const Expr)).unwrap_or(&false)
                };
                let dynamic = if self.in_virtual {
                    None
                } else {
                    self.lookup_var(name)
                };
                match (dynamic, lexical_var) {
                    (Some((v, depth)), true) => {
                        if depth >= 2 {
                            self.probe(Probe::ShadowDepth2);
                        }
                        if depth >= 3 {
                            self.probe(Probe::ShadowDepth3);
                        }
                        if self.outputs.contains_key(name) {
                            self.probe(Probe::VariableShadowsOutput);
                        }
                        Ok(v)
                    }
                    (Some(_), false) => Err(Stop::Unspecified(format!(
                        "`{name}` is lexically an output read but a variable of that name \
                         exists at run time"
                    ))),
                    (None, true) if matches!(self.outputs.get(name), Some(OutVal::Num(_))) => {
                        // a `let` of this name precedes the use in the text but was never
                        // executed: no variable is in scope, the name denotes the device's
                        // output (C04: the value of the latest output-reading call)
                        match self.outputs.get(name) {
                            Some(OutVal::Num(v)) => Ok(*v),
                            _ => unreachable!(),
                        }
                    }
                    (None, true) => {
                        if self.sig_names.iter().any(|s| s == name) {
                            Err(Stop::Unspecified(format!(
                                "unassigned variable `{name}` is also a signal name"
                            )))
                        } else {
                            self.probe(Probe::Unassigned);
                            Err(Stop::Err(ErrClass::Unassigned))
                        }
                    }
                    (None, false) => match self.outputs.get(name) {
                        Some(OutVal::Num(v)) => Ok(*v),
                        Some(_) => {
                            if self.in_virtual {
                                self.probe(Probe::VirtualReadsZx);
                            }
                            self.probe(Probe::ZxRead);
                            Err(Stop::Err(ErrClass::ZxRead))
                        }
                        None if self.deviated => {
                            // (continue mode, after a layout deviation) the latest
                            // output-reading answer does not contain this output: there is no
                            // value the expression could evaluate to
                            self.probe(Probe::Unassigned);
                            Err(Stop::Err(ErrClass::Unassigned))
                        }
                        None => Err(Stop::Unspecified(format!(
                            "read of `{name}` which the device does not supply"
                        ))),
                    },
                }
            }
            Expr::Un(op, a) => {
                let v = self.eval(a)?;
                Ok(match op {
                    UnOp::Neg => {
                        if v == i64::MIN {
                            self.wrapped = true;
                        }
                        v.wrapping_neg()
                    }
                    UnOp::Not => (v == 0) as i64,
                    UnOp::Inv => !v,
                })
            }
            Expr::Bin(op, a, b) => {
                let l = self.eval(a)?;
                let r = self.eval(b)?;
                Ok(match op {
                    BinOp::Eq => (l == r) as i64,
                    BinOp::Ne => (l != r) as i64,
                    BinOp::Gt => (l > r) as i64,
                    BinOp::Lt => (l < r) as i64,
                    BinOp::Ge => (l >= r) as i64,
                    BinOp::Le => (l <= r) as i64,
                    BinOp::Or => l | r,
                    BinOp::Xor => l ^ r,
                    BinOp::And => l & r,
                    BinOp::Shl => {
                        if !(0..64).contains(&r) {
                            self.wrapped = true;
                        }
                        l.wrapping_shl(r as u32)
                    }
                    BinOp::Shr => {
                        if !(0..64).contains(&r) {
                            self.wrapped = true;
                        }
                        l.wrapping_shr(r as u32)
                    }
                    BinOp::Add => {
                        let (v, o) = l.overflowing_add(r);
                        self.wrapped |= o;
                        v
                    }
                    BinOp::Sub => {
                        let (v, o) = l.overflowing_sub(r);
                        self.wrapped |= o;
                        v
                    }
                    BinOp::Mul => {
                        let (v, o) = l.overflowing_mul(r);
                        self.wrapped |= o;
                        v
                    }
                    BinOp::Div => {
                        if r == 0 {
                            self.probe(Probe::DivZero);
                            return Err(Stop::Err(ErrClass::DivZero));
                        }
                        let (v, o) = l.overflowing_div(r);
                        self.wrapped |= o;
                        v
                    }
                    BinOp::Rem => {
                        if r == 0 {
                            self.probe(Probe::DivZero);
                            return Err(Stop::Err(ErrClass::DivZero));
                        }
                        let (v, o) = l.overflowing_rem(r);
                        self.wrapped |= o;
                        v
                    }
                })
            }
            Expr::Ite(c, a, b) => {
                let t = self.eval(c)?;
                let (sel, other) = if t != 0 { (a, b) } else { (b, a) };
                if other.contains_random() {
                    self.probe(Probe::RandomInUnselectedIte);
                }
                self.eval(sel)
            }
            Expr::Random(a) => {
                let bound = self.eval(a)?;
                if bound <= 0 {
                    self.probe(Probe::EmptyRandom);
                    return Err(Stop::Err(ErrClass::EmptyRandom));
                }
                if bound == 1 {
                    return Err(Stop::Unspecified(
                        "random(1): an error item or a value, either is allowed".into(),
                    ));
                }
                self.probe(Probe::RandomDraw);
                // the log must show: Bound(bound), Draw, Value(v)
                let at = self.draw_pos;
                let got = [self.next_draw(), self.next_draw(), self.next_draw()];
                match got {
                    [Some(Draw::Bound(b)), Some(Draw::Draw), Some(Draw::Value(v))] if b == bound => {
                        Ok(v)
                    }
                    _ => {
                        if self.draw_mismatch.is_none() {
                            self.draw_mismatch = Some(format!(
                                "random({bound}) evaluated by the reference, but the draw log \
                                 shows {got:?} at position {at}"
                            ));
                        }
                        Err(Stop::Unspecified("draw log does not line up".into()))
                    }
                }
            }
            Expr::SignExt(..) => {
                self.probe(Probe::NotImplemented);
                Err(Stop::Unspecified(
                    "signExt: an error item while unimplemented, a value once implemented".into(),
                ))
            }
        }
    }

    fn input_signals(&self) -> impl Iterator<Item = &'a SigSpec> {
        self.inp.signals.iter().filter(|s| s.is_input())
    }

    /// perform one driver call; returns the answer
    fn call(&mut self, kind: CallKind, inputs: &[InVal]) -> ModelAnswer {
        let write_only = kind == CallKind::W && self.inp.dut.overrides_write;
        let ans = self.dut.answer(self.calls, write_only, inputs);
        self.calls += 1;
        ans
    }

    fn push_step(&mut self, step: RefStep) -> Result<(), Stop> {
        self.steps.push(step);
        Ok(())
    }

    fn check_cap(&self) -> Result<(), Stop> {
        if self.steps.len() >= self.inp.max_steps {
            Err(Stop::Cap)
        } else {
            Ok(())
        }
    }

    fn row(&mut self, entries: &[Entry], stmt_id: usize) -> Result<(), Stop> {
        self.check_cap()?;
        let env = self.env();
        let src_row = self.src_rows;
        self.src_rows += 1;
        // 1. evaluate entries left to right
        let mut ev: Vec<Ev> = vec![];
        let mut reads_output = false;
        let draws_before = self.draw_pos;
        let first_step = self.steps.len();
        for en in entries {
            match en {
                Entry::Num(n) => ev.push(Ev::Num(*n)),
                Entry::X => ev.push(Ev::X),
                Entry::Z => ev.push(Ev::Z),
                Entry::C => ev.push(Ev::C),
                Entry::Expr(e) => {
                    reads_output |= self.reads_device(e);
                    let v = match self.eval(e) {
                        Ok(v) => v,
                        Err(stop) => return self.fail_row(stop, env, src_row, stmt_id),
                    };
                    ev.push(Ev::Num(v));
                }
                Entry::Bits(k, e) => {
                    self.probe(Probe::Bits);
                    reads_output |= self.reads_device(e);
                    let v = match self.eval(e) {
                        Ok(v) => v,
                        Err(stop) => return self.fail_row(stop, env, src_row, stmt_id),
                    };
                    for bit in (0..*k).rev() {
                        ev.push(Ev::Num((v >> bit) & 1));
                    }
                }
            }
        }
        if self.draw_pos >= draws_before + 6 && self.multi_draw_step.is_none() {
            self.multi_draw_step = Some(first_step);
        }
        if reads_output {
            self.probe(Probe::ReadInRow);
            if self.rw_calls == 1 {
                self.probe(Probe::ReadBeforeFirstRow);
            }
        }
        let header = &self.inp.program.header;
        assert_eq!(ev.len(), header.len(), "harness: row width != header width");
        let col_of = |name: &str| header.iter().position(|h| h == name);
        // 2. classify columns
        let in_sigs: Vec<&SigSpec> = self.input_signals().collect();
        let in_cols: Vec<Option<usize>> = in_sigs.iter().map(|s| col_of(&s.name)).collect();
        let is_in_col = |c: usize| in_cols.iter().any(|ic| *ic == Some(c));
        let x_cols: Vec<usize> = (0..ev.len())
            .filter(|c| ev[*c] == Ev::X && is_in_col(*c))
            .collect();
        let c_cols: Vec<usize> = (0..ev.len())
            .filter(|c| ev[*c] == Ev::C && is_in_col(*c))
            .collect();
        let (nx, nc) = (x_cols.len(), c_cols.len());
        match nx {
            0 => {}
            1 => self.probe(Probe::RowX1),
            2 => self.probe(Probe::RowX2),
            _ => self.probe(Probe::RowX3plus),
        }
        match nc {
            0 => {}
            1 => self.probe(Probe::RowC1),
            _ => self.probe(Probe::RowC2plus),
        }
        if nx > 0 && nc > 0 {
            self.probe(Probe::RowXandC);
        }
        if (nx > 0 || nc > 0) && self.loop_depth + self.while_depth > 0 {
            self.probe(Probe::ExpansionInsideLoop);
        }
        // expected values: once per source row
        let mut expected: Vec<(String, u32, bool, ExpVal)> = vec![]; // name, bits, is_virtual
        for s in self.inp.signals.iter().filter(|s| s.is_output()) {
            let col = if s.kind == SigKind::Bidir {
                col_of(&format!("{}_out", s.name))
            } else {
                col_of(&s.name)
            };
            let v = match col.map(|c| &ev[c]) {
                None => ExpVal::X,
                Some(Ev::Num(n)) => ExpVal::Num(mask(*n, s.bits)),
                Some(Ev::Z) => ExpVal::Z,
                Some(Ev::X) => ExpVal::X,
                Some(Ev::C) => panic!("harness: C under an expected column"),
            };
            expected.push((s.name.clone(), s.bits, false, v));
        }
        for name in self.inp.virtual_order {
            let v = match col_of(name).map(|c| &ev[c]) {
                None => ExpVal::X,
                Some(Ev::Num(n)) => ExpVal::Num(*n),
                Some(Ev::Z) => ExpVal::Z,
                Some(Ev::X) => ExpVal::X,
                Some(Ev::C) => panic!("harness: C under a virtual column"),
            };
            expected.push((name.clone(), 64, true, v));
        }

        // 3. expansion
        let mut sub = 0;
        let moved_before = self.rw_calls;
        for g in 0..(1u64 << nx) {
            let phases: &[(i64, CallKind)] = if nc > 0 {
                &[(0, CallKind::W), (1, CallKind::W), (0, CallKind::RW)]
            } else {
                &[(0, CallKind::RW)]
            };
            for (pi, (clk, kind)) in phases.iter().enumerate() {
                if sub > 0 {
                    self.check_cap()?;
                }
                // input vector
                let mut inputs = vec![];
                for (si, s) in in_sigs.iter().enumerate() {
                    let v = match in_cols[si] {
                        None => s.default,
                        Some(c) => {
                            if let Some(xi) = x_cols.iter().position(|x| *x == c) {
                                InVal::Num(mask(((g >> xi) & 1) as i64, s.bits))
                            } else if c_cols.contains(&c) {
                                InVal::Num(mask(*clk, s.bits))
                            } else {
                                match &ev[c] {
                                    Ev::Num(n) => InVal::Num(mask(*n, s.bits)),
                                    Ev::Z => InVal::Z,
                                    Ev::X | Ev::C => unreachable!(),
                                }
                            }
                        }
                    };
                    inputs.push(v);
                }
                let ans = self.call(*kind, &inputs);
                let call = RefCall {
                    kind: *kind,
                    inputs: inputs.clone(),
                };
                let mk = |item: RefItem, env: &Vec<(String, i64)>| RefStep {
                    call: Some(call.clone()),
                    item,
                    env: env.clone(),
                    src_row,
                    sub,
                    nx,
                    nc,
                    stmt_id,
                    continues: false,
                };
                match ans {
                    ModelAnswer::Err(id) => {
                        self.probe(Probe::DriverError);
                        if nc > 0 && pi < 2 {
                            self.probe(Probe::DriverErrorInsideTriple);
                        }
                        if self.inp.continue_after_error {
                            // the call was made and failed: no answer, the outputs keep the
                            // values of the latest answer that was received; the rows that are
                            // still pending (rest of the clock triple, further X assignments)
                            // and the statements that follow are the prescribed ones (C15:
                            // the rows do not depend on what the driver returns)
                            let mut step = mk(RefItem::DriverErr(id), &env);
                            step.continues = true;
                            self.steps.push(step);
                            sub += 1;
                            continue;
                        }
                        self.steps.push(mk(RefItem::DriverErr(id), &env));
                        return Err(Stop::DriverErr(id));
                    }
                    ModelAnswer::Unit => {
                        self.steps.push(mk(
                            RefItem::Row {
                                inputs,
                                outputs: vec![],
                            },
                            &env,
                        ));
                    }
                    ModelAnswer::Ok(ans) => {
                        if *kind == CallKind::W {
                            // forwarded by the default write_input: answer discarded
                            self.steps.push(mk(
                                RefItem::Row {
                                    inputs,
                                    outputs: vec![],
                                },
                                &env,
                            ));
                        } else {
                            self.rw_calls += 1;
                            let layout: Vec<SigId> = ans.iter().map(|(s, _)| *s).collect();
                            if layout != self.first_layout {
                                self.probe(Probe::LayoutDeviation);
                                let mut step =
                                    mk(RefItem::RuntimeErr(ErrClass::LayoutDeviation), &env);
                                if self.inp.continue_after_error {
                                    // the call was an output-reading call and its answer was
                                    // received: by name, these are now the latest values; the
                                    // row itself is an error item, the run goes on
                                    self.deviated = true;
                                    self.set_outputs(&ans);
                                    step.continues = true;
                                    self.steps.push(step);
                                    sub += 1;
                                    continue;
                                }
                                self.steps.push(step);
                                return Err(Stop::Err(ErrClass::LayoutDeviation));
                            }
                            let before = self.outputs.clone();
                            self.set_outputs(&ans);
                            if reads_output && sub > 0 && before != self.outputs {
                                let _ = moved_before;
                                self.probe(Probe::HeldExprWhileOutputMoved);
                            }
                            self.last_answer_changed = before != self.outputs;
                            // outputs of the row
                            let mut outs = vec![];
                            let mut virtual_failed = false;
                            for (name, _bits, is_virtual, exp) in &expected {
                                let out = if *is_virtual {
                                    let expr = self
                                        .virtuals
                                        .iter()
                                        .find(|(n, _)| n == name)
                                        .map(|(_, e)| *e)
                                        .expect("harness: virtual signal without declaration");
                                    self.in_virtual = true;
                                    self.probe(Probe::VirtualEvaluated);
                                    let r = self.eval(expr);
                                    self.in_virtual = false;
                                    match r {
                                        Ok(v) => OutVal::Num(v),
                                        Err(Stop::Err(class)) => {
                                            let mut step = mk(RefItem::RuntimeErr(class), &env);
                                            if self.inp.continue_after_error {
                                                // the row itself was executed completely (entries
                                                // evaluated, call made, answer received): the
                                                // run goes on with what follows
                                                step.continues = true;
                                                self.steps.push(step);
                                                virtual_failed = true;
                                                break;
                                            }
                                            self.steps.push(step);
                                            return Err(Stop::Err(class));
                                        }
                                        Err(other) => {
                                            // the call has been made; what the row looks like
                                            // is left open
                                            return Err(other);
                                        }
                                    }
                                } else {
                                    self.outputs.get(name).copied().unwrap_or(OutVal::X)
                                };
                                outs.push((name.clone(), *exp, out));
                            }
                            if !virtual_failed {
                                self.steps.push(mk(
                                    RefItem::Row {
                                        inputs,
                                        outputs: outs,
                                    },
                                    &env,
                                ));
                            }
                        }
                    }
                }
                sub += 1;
            }
        }
        Ok(())
    }

    fn fail_row(
        &mut self,
        stop: Stop,
        env: Vec<(String, i64)>,
        src_row: usize,
        stmt_id: usize,
    ) -> Result<(), Stop> {
        if let Stop::Err(class) = &stop {
            let continues = self.inp.continue_after_error;
            self.steps.push(RefStep {
                call: None,
                item: RefItem::RuntimeErr(*class),
                env,
                src_row,
                sub: 0,
                nx: 0,
                nc: 0,
                stmt_id,
                continues,
            });
            if continues {
                // an entry of the row could not be evaluated: nothing was sent, the row is an
                // error item, the run goes on with the next statement (or the next iteration)
                self.probe(Probe::ContinuedAfterFailedStatement);
                return Ok(());
            }
        }
        Err(stop)
    }

    fn set_outputs(&mut self, ans: &[(SigId, OutVal)]) {
        self.outputs.clear();
        // (signals the test does not know first: where one of them has the name of a test
        // signal, the test's own signal is the one a row reports)
        let mut ordered: Vec<&(SigId, OutVal)> = ans.iter().collect();
        ordered.sort_by_key(|(id, _)| matches!(id, SigId::Test(_)));
        for (id, v) in ordered {
            // a signal the test does not know that merely has the name of a test signal is
            // not that signal (such devices only occur with programs that read no output)
            if let SigId::Foreign(x) = id {
                let name = &self.dut.foreign[*x as usize].spec.name;
                if self.sig_names.iter().any(|n| n == name) {
                    continue;
                }
            }
            let name = match id {
                SigId::Test(i) => self.sig_names[*i as usize].clone(),
                SigId::Foreign(x) => self.dut.foreign[*x as usize].spec.name.clone(),
            };
            self.outputs.insert(name, *v);
        }
    }

    /// errors raised by statements between rows become the item of the pulling `next()`
    fn stmt_err(&mut self, stop: Stop) -> Stop {
        if let Stop::Err(class) = &stop {
            if self.steps.len() < self.inp.max_steps {
                self.steps.push(RefStep {
                    call: None,
                    item: RefItem::RuntimeErr(*class),
                    env: self.env(),
                    src_row: self.src_rows,
                    sub: 0,
                    nx: 0,
                    nc: 0,
                    stmt_id: usize::MAX,
                    continues: false,
                });
            }
        }
        stop
    }

    fn reads_device(&self, e: &Expr) -> bool {
        let mut r = false;
        e.ids(&mut |id| {
            if self.outputs.contains_key(id) && self.lookup_var(id).is_none() {
                r = true
            }
        });
        r
    }

    fn block(&mut self, stmts: &'a [Stmt]) -> Result<(), Stop> {
        for s in stmts {
            // the library runs statements lazily: once the caller has stopped pulling (step
            // cap) nothing that follows the last yielded row has been executed
            self.check_cap()?;
            let stmt_id = self.stmt_counter_of(s);
            match s {
                Stmt::Let(name, e) => {
                    if self.reads_device(e) {
                        self.probe(Probe::ReadInLet);
                        if self.rw_calls == 1 {
                            self.probe(Probe::ReadBeforeFirstRow);
                        }
                    }
                    if self.while_depth > 0 && self.loop_depth > 0 {
                        self.probe(Probe::LetInWhileInLoop);
                    }
                    let v = match self.eval(e) {
                        Ok(v) => v,
                        Err(Stop::Err(class)) if self.inp.continue_after_error => {
                            // the statement failed: an error item for the pulling next(),
                            // nothing is bound, the run goes on with the next statement
                            let _ = self.stmt_err(Stop::Err(class));
                            if let Some(last) = self.steps.last_mut() {
                                last.continues = true;
                            }
                            self.probe(Probe::ContinuedAfterFailedStatement);
                            continue;
                        }
                        Err(s) => return Err(self.stmt_err(s)),
                    };
                    if self.frame_counters.last().unwrap().as_deref() == Some(name.as_str()) {
                        // how many iterations follow is deliberately left open
                        return Err(Stop::Unspecified(format!(
                            "`let {name}` rebinds the counter of the loop whose scope it lands in"
                        )));
                    }
                    self.set_var(name, v);
                }
                Stmt::Row(entries) => self.row(entries, stmt_id)?,
                Stmt::Loop(var, bound, body) => {
                    self.run_loop(var, bound, LoopBody::Block(body), stmt_id)?;
                }
                Stmt::Repeat(bound, entries) => {
                    if self.lookup_var("n").is_some() {
                        self.probe(Probe::RepeatNextToOuterN);
                    }
                    self.run_loop("n", bound, LoopBody::Row(entries), stmt_id)?;
                }
                Stmt::While(cond, body) => {
                    let mut first = true;
                    loop {
                        self.check_cap()?;
                        if self.reads_device(cond) {
                            self.probe(Probe::DeviceSteeredWhile);
                        }
                        if cond.contains_random() {
                            self.probe(Probe::DrawSteersControl);
                        }
                        let c = self.eval(cond).map_err(|s| self.stmt_err(s))?;
                        if c == 0 {
                            if first {
                                self.probe(Probe::WhileExitsOnFirstTest);
                            }
                            break;
                        }
                        first = false;
                        self.while_depth += 1;
                        let r = self.block(body);
                        self.while_depth -= 1;
                        r?;
                        // a while loop whose body yields no row and never ends would hang the
                        // reference too; the generator never produces one, the cap on steps
                        // does not help here, so guard by a generous iteration bound
                    }
                }
                Stmt::ResetRandom => {
                    self.probe(Probe::ResetRandom);
                    match self.next_draw() {
                        Some(Draw::Reset) => {}
                        other => {
                            if self.draw_mismatch.is_none() {
                                self.draw_mismatch = Some(format!(
                                    "resetRandom executed by the reference, but the draw log \
                                     shows {other:?} at position {}",
                                    self.draw_pos
                                ));
                            }
                            return Err(Stop::Unspecified("draw log does not line up".into()));
                        }
                    }
                }
                Stmt::Declare(..) => {}
            }
        }
        Ok(())
    }

    fn stmt_counter_of(&mut self, _s: &Stmt) -> usize {
        // identity of a statement = its address (stable for the lifetime of the program)
        _s as *const Stmt as usize
    }

    fn run_loop(
        &mut self,
        var: &str,
        bound: &'a Expr,
        body: LoopBody<'a>,
        stmt_id: usize,
    ) -> Result<(), Stop> {
        if self.reads_device(bound) {
            self.probe(Probe::DeviceSteeredBound);
            self.probe(Probe::ReadInLet);
        }
        if bound.contains_random() {
            self.probe(Probe::DrawSteersControl);
        }
        let n = self.eval(bound).map_err(|s| self.stmt_err(s))?;
        if n <= 0 {
            self.probe(Probe::ZeroTripLoop);
            if n < 0 {
                self.probe(Probe::NegativeBound);
            }
            return Ok(());
        }
        let shadows = self.lookup_var(var).is_some();
        self.frames.push(vec![]);
        self.frame_index.push(HashMap::new());
        self.frame_counters.push(Some(var.to_string()));
        self.loop_depth += 1;
        if self.loop_depth >= 3 {
            self.probe(Probe::LoopDepth3);
        }
        if self.while_depth > 0 {
            self.probe(Probe::NestedLoopInWhile);
        }
        let mut result = Ok(());
        for c in 0..n {
            self.set_var(var, c);
            result = match &body {
                LoopBody::Block(b) => self.block(b),
                LoopBody::Row(entries) => self.row(entries, stmt_id),
            };
            if result.is_err() {
                break;
            }
        }
        self.loop_depth -= 1;
        if result.is_ok() {
            self.frames.pop();
            self.frame_index.pop();
            self.frame_counters.pop();
            if shadows {
                self.probe(Probe::ShadowUncoveredOnLoopExit);
            }
        }
        result
    }
}

enum LoopBody<'a> {
    Block(&'a [Stmt]),
    Row(&'a [Entry]),
}

pub fn run_reference(inp: &RefInput<'_>) -> RefRun {
    let mut lexical_var = HashMap::new();
    let mut reads = vec![];
    lexical(
        &inp.program.stmts,
        &mut vec![std::collections::HashSet::new()],
        &mut lexical_var,
        &mut reads,
        &mut std::collections::HashSet::new(),
    );
    let declares = inp.program.declares();
    let mut sig_names: Vec<String> = inp.signals.iter().map(|s| s.name.clone()).collect();
    for v in inp.virtual_order {
        sig_names.push(v.clone());
    }
    let dut = DutModel::new(inp.dut.clone(), &sig_names).expect("harness: bad DUT spec");
    let mut it = Interp {
        inp,
        dut,
        lexical_var,
        frames: vec![vec![]],
        frame_index: vec![HashMap::new()],
        frame_counters: vec![None],
        outputs: HashMap::new(),
        first_layout: vec![],
        calls: 0,
        rw_calls: 0,
        steps: vec![],
        probes: [0; N_PROBES],
        wrapped: false,
        draw_pos: 0,
        multi_draw_step: None,
        draw_mismatch: None,
        src_rows: 0,
        loop_depth: 0,
        while_depth: 0,
        sig_names,
        virtuals: declares
            .iter()
            .map(|(n, e)| (n.to_string(), *e))
            .collect(),
        in_virtual: false,
        deviated: false,
        last_answer_changed: false,
        stmt_counter: 0,
    };
    let _ = it.stmt_counter;
    let _ = it.last_answer_changed;
    let ctor_inputs: Vec<InVal> = it.input_signals().map(|s| s.default).collect();
    let mut run = RefRun {
        ctor_inputs: ctor_inputs.clone(),
        ctor: RefCtor::Ok,
        steps: vec![],
        truncated: false,
        unspecified: None,
        wrapped: false,
        probes: [0; N_PROBES],
        multi_draw_step: None,
        draw_mismatch: None,
        draws_used: 0,
        draws_total: inp.draws.len(),
        is_static: reads.is_empty(),
        read_outputs: reads.clone(),
    };
    // constructor: one reading call with the defaults
    match it.call(CallKind::RW, &ctor_inputs) {
        ModelAnswer::Err(id) => {
            run.ctor = RefCtor::DriverErr(id);
            it.probe(Probe::DriverError);
            run.probes = it.probes;
            return run;
        }
        ModelAnswer::Unit => unreachable!(),
        ModelAnswer::Ok(ans) => {
            it.rw_calls = 1;
            it.first_layout = ans.iter().map(|(s, _)| *s).collect();
            it.set_outputs(&ans);
            // every output the program reads must be supplied (as a test signal)
            let supplied: Vec<&str> = ans
                .iter()
                .filter_map(|(s, _)| match s {
                    SigId::Test(i) => Some(it.sig_names[*i as usize].as_str()),
                    SigId::Foreign(_) => None,
                })
                .collect();
            if reads.iter().any(|r| !supplied.contains(&r.as_str())) {
                run.ctor = RefCtor::RuntimeErr(ErrClass::MissingOutputs);
                run.probes = it.probes;
                return run;
            }
        }
    }
    let result = it.block(&inp.program.stmts);
    match result {
        Ok(()) => {
            if it.steps.len() < inp.max_steps {
                it.steps.push(RefStep {
                    call: None,
                    item: RefItem::End,
                    env: vec![],
                    src_row: it.src_rows,
                    sub: 0,
                    nx: 0,
                    nc: 0,
                    stmt_id: usize::MAX,
                    continues: false,
                });
            } else {
                run.truncated = true;
            }
        }
        Err(Stop::Cap) => run.truncated = true,
        Err(Stop::Err(_)) | Err(Stop::DriverErr(_)) => {}
        Err(Stop::Unspecified(why)) => run.unspecified = Some((it.steps.len(), why)),
    }
    if it.wrapped {
        it.probe(Probe::WrappedArith);
    }
    run.steps = it.steps;
    run.wrapped = it.wrapped;
    run.probes = it.probes;
    run.draw_mismatch = it.draw_mismatch;
    run.multi_draw_step = it.multi_draw_step;
    run.draws_used = it.draw_pos;
    run
}
