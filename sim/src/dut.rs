//! The simulated device under test.
//!
//! `DutModel` is the pure part: answers are a function of (spec, call index, received input
//! values) only. `SimDutOv` / `SimDutDe` wrap it behind the crate's real `TestDriver` trait
//! (overriding `write_input` / relying on the trait's default method) and record every call.

use crate::json::J;
use crate::model::{InVal, OutVal, SigKind, SigSpec};
use crate::rng::mix;
use digital_test_runner::{
    InputEntry, InputValue, OutputEntry, OutputValue, Signal, SignalType, TestDriver,
};
use std::cell::{Cell, RefCell};
use std::rc::Rc;

// ---------------------------------------------------------------------------------------
// spec

#[derive(Clone, Debug, PartialEq, Eq, Hash)]
pub struct TableW {
    pub small: u32,
    pub byte: u32,
    pub fit: u32,
    pub boundary: u32,
    pub z: u32,
    pub x: u32,
}

#[derive(Clone, Debug, PartialEq, Eq, Hash)]
pub enum SigBeh {
    /// 1_000_000 * call + 1_000 * signal id + salt: unique per (call, signal), decodable
    Tagged,
    /// hash(seed, call, signal) -> value class -> value
    Table(TableW),
    /// start + step * call
    Counter(i64, i64),
    /// a function of the received input values (not of the call index)
    Echo(u32),
    Const(OutVal),
    /// 0 until call index >= t, then 1
    DoneAfter(u64),
    /// explicit values, indexed by call, last one repeated
    Script(Vec<OutVal>),
}

#[derive(Clone, Debug, PartialEq, Eq, Hash)]
pub enum FaultKind {
    /// the call fails with a driver error carrying this fault's id
    Error,
    /// layout deviations for this one answer
    Drop(usize),
    AddForeign,
    /// a foreign signal inserted at this position
    InsertForeign(usize),
    /// this many entries for a foreign signal appended (256: past a u8 count)
    AddManyForeign(usize),
    /// the first this many entries dropped
    DropMany(usize),
    Dup(usize),
    Swap(usize, usize),
    SubstName(usize),
    SubstBits(usize),
    SubstKind(usize),
    /// not a fault of one call (`at_call` is ignored): in EVERY answer, the entry at this
    /// position belongs to a signal the test does not know (the device lists it instead of
    /// the test signal the layout names there) - a consistent layout, legal
    PermanentForeign(usize),
    /// every answer ends with one more entry: a signal the test does not know that has the
    /// NAME of layout entry p but another width (a board that dumps all its pins: `Q(1) ... Q(8)`)
    PermanentAlias(usize),
    /// value override at layout position
    Value(usize, OutVal),
}

#[derive(Clone, Debug, PartialEq, Eq, Hash)]
pub struct Fault {
    pub at_call: u64,
    pub kind: FaultKind,
    pub id: u64,
}

#[derive(Clone, Debug, PartialEq, Eq, Hash)]
pub struct DutSpec {
    /// signals the DUT returns, in this order, with a behaviour each
    pub layout: Vec<(SigSpec, SigBeh)>,
    pub seed: u64,
    pub overrides_write: bool,
    pub faults: Vec<Fault>,
    /// the driver keeps ONE table of `Signal`s and rewrites it in place from what the device
    /// reports in each call: the entries of every answer refer to the same addresses,
    /// whatever signals they describe (a driver that owns its signals may do that - the
    /// answer borrows from `&mut self`)
    pub in_place: bool,
    /// (with `in_place`) the table is filled front to back on even calls and back to front on
    /// odd calls: every answer lists the same signals in the same order, but the `Signal`
    /// behind entry k lives at another address from call to call, and the address that held
    /// one signal in the previous answer holds another one now
    pub alternate_memory: bool,
    /// (> 1) the table- and counter-driven outputs move on only every `hold` calls, so that
    /// consecutive answers are regularly identical (also identical `Z`/`X`)
    pub hold: u32,
}

/// largest answer an `in_place` driver keeps in its fixed table
pub const IN_PLACE_CAPACITY: usize = 400;

pub const TAG_CALL: i64 = 1_000_000;
pub const TAG_SIG: i64 = 1_000;

/// decode a tagged value into (call, signal id, salt)
pub fn decode_tag(v: i64) -> Option<(u64, usize, i64)> {
    if v < 0 {
        return None;
    }
    Some((
        (v / TAG_CALL) as u64,
        ((v % TAG_CALL) / TAG_SIG) as usize,
        v % TAG_SIG,
    ))
}

// ---------------------------------------------------------------------------------------
// pure model

/// Identity of a signal in an answer: position in the test's signal list, or one of the
/// foreign signals that fault injection made up.
#[derive(Clone, Copy, Debug, PartialEq, Eq, Hash)]
pub enum SigId {
    Test(u32),
    Foreign(u32),
}

#[derive(Clone, Debug, PartialEq, Eq)]
pub enum ModelAnswer {
    Err(u64),
    Unit,
    Ok(Vec<(SigId, OutVal)>),
}

/// A signal made up by fault injection
#[derive(Clone, Debug, PartialEq, Eq)]
pub struct ForeignSig {
    pub spec: SigSpec,
    /// which fault (index into spec.faults) it belongs to
    pub fault: usize,
}

#[derive(Clone, Debug)]
pub struct DutModel {
    pub spec: DutSpec,
    /// for each layout entry: index of that signal in the test's signal list
    pub layout_ids: Vec<u32>,
    pub foreign: Vec<ForeignSig>,
}

impl DutModel {
    /// `test_sig_names`: names of the test's signals (config signals first, as in
    /// `TestCase.signals`); layout entries are matched by name.
    pub fn new(spec: DutSpec, test_sig_names: &[String]) -> Result<DutModel, String> {
        let mut layout_ids = vec![];
        for (sig, _) in &spec.layout {
            let Some(i) = test_sig_names.iter().position(|n| *n == sig.name) else {
                return Err(format!("layout signal {} is not a test signal", sig.name));
            };
            layout_ids.push(i as u32);
        }
        let mut foreign = vec![];
        for (fi, f) in spec.faults.iter().enumerate() {
            let base = |p: usize| spec.layout.get(p).map(|(s, _)| s.clone());
            let made = match &f.kind {
                FaultKind::AddForeign
                | FaultKind::InsertForeign(_)
                | FaultKind::AddManyForeign(_) => Some(SigSpec {
                    name: format!("FOREIGN{fi}"),
                    bits: 1,
                    kind: SigKind::Out,
                    default: InVal::Num(0),
                }),
                FaultKind::SubstName(p) => base(*p).map(|mut s| {
                    s.name = format!("{}_x{fi}", s.name);
                    s
                }),
                FaultKind::PermanentForeign(p) => base(*p).map(|mut s| {
                    s.name = format!("{}_ext{fi}", s.name);
                    s.kind = SigKind::Out;
                    s
                }),
                FaultKind::PermanentAlias(p) => base(*p).map(|mut s| {
                    s.bits = if s.bits >= 32 { s.bits - 3 } else { s.bits + 7 };
                    s.kind = SigKind::Out;
                    s
                }),
                FaultKind::SubstBits(p) => base(*p).map(|mut s| {
                    s.bits = if s.bits == 1 { 2 } else { s.bits - 1 };
                    s
                }),
                FaultKind::SubstKind(p) => base(*p).map(|mut s| {
                    s.kind = match s.kind {
                        SigKind::Out => SigKind::Bidir,
                        SigKind::Bidir => SigKind::Out,
                        SigKind::In => SigKind::Out,
                    };
                    s
                }),
                _ => None,
            };
            if let Some(spec) = made {
                foreign.push(ForeignSig { spec, fault: fi });
            }
        }
        Ok(DutModel {
            spec,
            layout_ids,
            foreign,
        })
    }

    fn foreign_of(&self, fault: usize) -> Option<u32> {
        self.foreign
            .iter()
            .position(|f| f.fault == fault)
            .map(|i| i as u32)
    }

    fn value(&self, pos: usize, call: u64, inputs: &[InVal]) -> OutVal {
        let (sig, beh) = &self.spec.layout[pos];
        let id = self.layout_ids[pos] as u64;
        let seed = self.spec.seed;
        let call = if self.spec.hold > 1 && matches!(beh, SigBeh::Table(_) | SigBeh::Counter(..)) {
            call / self.spec.hold as u64
        } else {
            call
        };
        match beh {
            SigBeh::Tagged => OutVal::Num(
                TAG_CALL * call as i64 + TAG_SIG * (id as i64 % 1000) + (seed % 1000) as i64,
            ),
            SigBeh::Table(w) => {
                let h = mix(&[seed, call, id, 0x7ab1e]);
                let weights = [w.small, w.byte, w.fit, w.boundary, w.z, w.x];
                let total: u64 = weights.iter().map(|w| *w as u64).sum();
                let mut r = if total == 0 { 0 } else { h % total };
                let mut class = 0;
                for (i, w) in weights.iter().enumerate() {
                    if r < *w as u64 {
                        class = i;
                        break;
                    }
                    r -= *w as u64;
                }
                let h2 = mix(&[h, 1]);
                match class {
                    0 => OutVal::Num((h2 % 4) as i64),
                    1 => OutVal::Num((h2 % 256) as i64),
                    2 => OutVal::Num(crate::model::mask(h2 as i64, sig.bits.min(62))),
                    3 => {
                        let wide = if sig.bits < 62 { 1i64 << sig.bits } else { i64::MAX };
                        let opts = [
                            i64::MIN,
                            -1,
                            i64::MAX,
                            wide,
                            -(1i64 << 31),
                            i64::MIN + 1,
                            0,
                        ];
                        OutVal::Num(opts[(h2 % opts.len() as u64) as usize])
                    }
                    4 => OutVal::Z,
                    _ => OutVal::X,
                }
            }
            SigBeh::Counter(start, step) => {
                OutVal::Num(start.wrapping_add(step.wrapping_mul(call as i64)))
            }
            SigBeh::Echo(modulus) => {
                let mut words = vec![seed, id, 0xec40];
                for v in inputs {
                    words.push(match v {
                        InVal::Num(n) => *n as u64,
                        InVal::Z => 0x5a5a_5a5a_5a5a_5a5a,
                    });
                }
                OutVal::Num((mix(&words) % (*modulus).max(1) as u64) as i64)
            }
            SigBeh::Const(v) => *v,
            SigBeh::DoneAfter(t) => OutVal::Num((call >= *t) as i64),
            SigBeh::Script(vals) => {
                if vals.is_empty() {
                    OutVal::Num(0)
                } else {
                    vals[(call as usize).min(vals.len() - 1)]
                }
            }
        }
    }

    /// The answer to call number `call` (0 = the constructor's call). `write_only` is true
    /// when the call arrives through an overridden `write_input`.
    pub fn answer(&self, call: u64, write_only: bool, inputs: &[InVal]) -> ModelAnswer {
        let faults: Vec<(usize, &Fault)> = self
            .spec
            .faults
            .iter()
            .enumerate()
            .filter(|(_, f)| {
                f.at_call == call
                    || matches!(f.kind, FaultKind::PermanentForeign(_) | FaultKind::PermanentAlias(_))
            })
            .collect();
        for (_, f) in &faults {
            if f.kind == FaultKind::Error && f.at_call == call {
                return ModelAnswer::Err(f.id);
            }
        }
        if write_only {
            return ModelAnswer::Unit;
        }
        let mut ans: Vec<(SigId, OutVal)> = (0..self.spec.layout.len())
            .map(|p| (SigId::Test(self.layout_ids[p]), self.value(p, call, inputs)))
            .collect();
        for (fi, f) in &faults {
            let n = ans.len();
            match &f.kind {
                FaultKind::Error => {}
                FaultKind::Drop(p) => {
                    if *p < n {
                        ans.remove(*p);
                    }
                }
                FaultKind::AddForeign => {
                    if let Some(x) = self.foreign_of(*fi) {
                        ans.push((SigId::Foreign(x), OutVal::Num(0)));
                    }
                }
                FaultKind::InsertForeign(p) => {
                    if let Some(x) = self.foreign_of(*fi) {
                        ans.insert((*p).min(n), (SigId::Foreign(x), OutVal::Num(0)));
                    }
                }
                FaultKind::AddManyForeign(count) => {
                    if let Some(x) = self.foreign_of(*fi) {
                        for _ in 0..*count {
                            ans.push((SigId::Foreign(x), OutVal::Num(0)));
                        }
                    }
                }
                FaultKind::DropMany(count) => {
                    ans.drain(..(*count).min(n));
                }
                FaultKind::Dup(p) => {
                    if *p < n {
                        let e = ans[*p];
                        ans.insert(*p, e);
                    }
                }
                FaultKind::Swap(p, q) => {
                    if *p < n && *q < n {
                        ans.swap(*p, *q);
                    }
                }
                FaultKind::SubstName(p)
                | FaultKind::SubstBits(p)
                | FaultKind::SubstKind(p)
                | FaultKind::PermanentForeign(p) => {
                    if *p < n {
                        if let Some(x) = self.foreign_of(*fi) {
                            ans[*p].0 = SigId::Foreign(x);
                        }
                    }
                }
                FaultKind::Value(p, v) => {
                    if *p < n {
                        ans[*p].1 = *v;
                    }
                }
                FaultKind::PermanentAlias(_) => {}
            }
        }
        // (appended last, whatever else happened to the answer)
        for (fi, f) in &faults {
            if let FaultKind::PermanentAlias(_) = f.kind {
                if let Some(x) = self.foreign_of(*fi) {
                    ans.push((SigId::Foreign(x), OutVal::Num(5)));
                }
            }
        }
        ModelAnswer::Ok(ans)
    }

    /// the layout as signal ids (what a fault-free answer looks like)
    pub fn base_layout(&self) -> Vec<SigId> {
        let mut l: Vec<SigId> = self.layout_ids.iter().map(|i| SigId::Test(*i)).collect();
        for (fi, f) in self.spec.faults.iter().enumerate() {
            if let FaultKind::PermanentForeign(p) = f.kind {
                if let (true, Some(x)) = (p < l.len(), self.foreign_of(fi)) {
                    l[p] = SigId::Foreign(x);
                }
            }
        }
        l
    }
}

// ---------------------------------------------------------------------------------------
// recording driver

#[derive(Clone, Debug, PartialEq, Eq, Hash)]
pub struct InRec {
    /// index into the test's signal list; u32::MAX if the entry's signal is not one of them
    pub sig: u32,
    pub value: InVal,
    pub changed: bool,
}

#[derive(Clone, Debug, PartialEq, Eq)]
pub struct CallRec {
    /// global event sequence number
    pub seq: u64,
    /// arrived through the DUT's own `write_input`
    pub write_only: bool,
    pub inputs: Vec<InRec>,
    pub answer: ModelAnswer,
}

#[derive(Debug, Clone, PartialEq, Eq)]
pub struct SimError {
    pub id: u64,
}

impl std::fmt::Display for SimError {
    fn fmt(&self, f: &mut std::fmt::Formatter<'_>) -> std::fmt::Result {
        write!(f, "injected driver fault #{}", self.id)
    }
}

impl std::error::Error for SimError {}

pub type CallLog = Rc<RefCell<Vec<CallRec>>>;

#[derive(Debug)]
pub struct DutCore {
    pub model: DutModel,
    test_sigs: Rc<Vec<Signal>>,
    /// real `Signal`s for the layout (clones of the test's own)
    own: Vec<Signal>,
    /// real `Signal`s for the foreign signals
    extra: Vec<Signal>,
    pub log: CallLog,
    seq: Rc<Cell<u64>>,
    calls: u64,
    /// the one signal table of an `in_place` driver (capacity fixed up front so that its
    /// elements never move)
    table: Vec<Signal>,
}

pub fn in_val(v: InputValue) -> InVal {
    match v {
        InputValue::Value(n) => InVal::Num(n),
        InputValue::Z => InVal::Z,
    }
}

pub fn to_input_value(v: InVal) -> InputValue {
    match v {
        InVal::Num(n) => InputValue::Value(n),
        InVal::Z => InputValue::Z,
    }
}

pub fn out_val(v: OutputValue) -> OutVal {
    match v {
        OutputValue::Value(n) => OutVal::Num(n),
        OutputValue::Z => OutVal::Z,
        OutputValue::X => OutVal::X,
    }
}

fn to_output_value(v: OutVal) -> OutputValue {
    match v {
        OutVal::Num(n) => OutputValue::Value(n),
        OutVal::Z => OutputValue::Z,
        OutVal::X => OutputValue::X,
    }
}

pub fn real_signal(spec: &SigSpec) -> Signal {
    let default = to_input_value(spec.default);
    Signal {
        name: spec.name.clone(),
        bits: spec.bits as usize,
        typ: match spec.kind {
            SigKind::In => SignalType::Input { default },
            SigKind::Out => SignalType::Output,
            SigKind::Bidir => SignalType::Bidirectional { default },
        },
    }
}

impl DutCore {
    pub fn new(
        spec: DutSpec,
        test_sigs: Rc<Vec<Signal>>,
        seq: Rc<Cell<u64>>,
    ) -> Result<DutCore, String> {
        let names: Vec<String> = test_sigs.iter().map(|s| s.name.clone()).collect();
        let model = DutModel::new(spec, &names)?;
        // the driver's own copies of the signals, built from the configuration (the way a
        // real driver holds the signals it was created with), not clones of what the
        // library stored after binding
        let own = model.spec.layout.iter().map(|(s, _)| real_signal(s)).collect();
        let extra = model.foreign.iter().map(|f| real_signal(&f.spec)).collect();
        Ok(DutCore {
            model,
            test_sigs,
            own,
            extra,
            log: Rc::new(RefCell::new(vec![])),
            seq,
            calls: 0,
            table: Vec::with_capacity(IN_PLACE_CAPACITY),
        })
    }

    fn record_inputs(&self, inputs: &[InputEntry<'_>]) -> Vec<InRec> {
        inputs
            .iter()
            .map(|e| {
                let sig = self
                    .test_sigs
                    .iter()
                    .position(|s| s == e.signal)
                    .map(|i| i as u32)
                    .unwrap_or(u32::MAX);
                InRec {
                    sig,
                    value: in_val(e.value),
                    changed: e.changed,
                }
            })
            .collect()
    }

    fn call(&mut self, write_only: bool, inputs: &[InputEntry<'_>]) -> ModelAnswer {
        let recs = self.record_inputs(inputs);
        let vals: Vec<InVal> = recs.iter().map(|r| r.value).collect();
        let call = self.calls;
        self.calls += 1;
        let answer = self.model.answer(call, write_only, &vals);
        let seq = self.seq.get();
        self.seq.set(seq + 1);
        self.log.borrow_mut().push(CallRec {
            seq,
            write_only,
            inputs: recs,
            answer: answer.clone(),
        });
        answer
    }

    fn realise(&mut self, ans: Vec<(SigId, OutVal)>) -> Vec<OutputEntry<'_>> {
        if self.model.spec.in_place && ans.len() <= IN_PLACE_CAPACITY {
            // rewrite the table in place: element slot(k) now describes the k-th reported signal
            let n = ans.len();
            let flip = self.model.spec.alternate_memory && self.calls % 2 == 0;
            let slot = |k: usize| if flip { n - 1 - k } else { k };
            if self.table.len() != n {
                let filler = self.own.first().or(self.extra.first()).cloned();
                self.table.truncate(n);
                while self.table.len() < n {
                    self.table.push(filler.clone().expect("an answer entry needs a signal"));
                }
            }
            for (k, (id, _)) in ans.iter().enumerate() {
                let sig = match id {
                    SigId::Test(i) => {
                        let pos = self
                            .model
                            .layout_ids
                            .iter()
                            .position(|l| l == i)
                            .expect("answer signal is in the layout");
                        self.own[pos].clone()
                    }
                    SigId::Foreign(x) => self.extra[*x as usize].clone(),
                };
                self.table[slot(k)] = sig;
            }
            let table = &self.table;
            return ans
                .into_iter()
                .enumerate()
                .map(|(k, (_, v))| OutputEntry {
                    signal: &table[slot(k)],
                    value: to_output_value(v),
                })
                .collect();
        }
        ans.into_iter()
            .map(|(id, v)| {
                let signal = match id {
                    SigId::Test(i) => {
                        let pos = self
                            .model
                            .layout_ids
                            .iter()
                            .position(|l| *l == i)
                            .expect("answer signal is in the layout");
                        &self.own[pos]
                    }
                    SigId::Foreign(x) => &self.extra[x as usize],
                };
                OutputEntry {
                    signal,
                    value: to_output_value(v),
                }
            })
            .collect()
    }

    fn rw(&mut self, inputs: &[InputEntry<'_>]) -> Result<Vec<OutputEntry<'_>>, SimError> {
        match self.call(false, inputs) {
            ModelAnswer::Err(id) => Err(SimError { id }),
            ModelAnswer::Ok(ans) => Ok(self.realise(ans)),
            ModelAnswer::Unit => unreachable!("harness: Unit answer to a reading call"),
        }
    }

    fn w(&mut self, inputs: &[InputEntry<'_>]) -> Result<(), SimError> {
        match self.call(true, inputs) {
            ModelAnswer::Err(id) => Err(SimError { id }),
            _ => Ok(()),
        }
    }
}

/// DUT that implements `write_input` itself
#[derive(Debug)]
pub struct SimDutOv(pub DutCore);

/// DUT that relies on the trait's default `write_input`
#[derive(Debug)]
pub struct SimDutDe(pub DutCore);

impl TestDriver for SimDutOv {
    type Error = SimError;
    fn write_input_and_read_output(
        &mut self,
        inputs: &[InputEntry<'_>],
    ) -> Result<Vec<OutputEntry<'_>>, SimError> {
        self.0.rw(inputs)
    }
    fn write_input(&mut self, inputs: &[InputEntry<'_>]) -> Result<(), SimError> {
        self.0.w(inputs)
    }
}

impl TestDriver for SimDutDe {
    type Error = SimError;
    fn write_input_and_read_output(
        &mut self,
        inputs: &[InputEntry<'_>],
    ) -> Result<Vec<OutputEntry<'_>>, SimError> {
        self.0.rw(inputs)
    }
}

// ---------------------------------------------------------------------------------------
// JSON

impl SigBeh {
    pub fn to_json(&self) -> J {
        match self {
            SigBeh::Tagged => J::s("tagged"),
            SigBeh::Table(w) => J::Arr(vec![
                J::s("table"),
                J::i(w.small),
                J::i(w.byte),
                J::i(w.fit),
                J::i(w.boundary),
                J::i(w.z),
                J::i(w.x),
            ]),
            SigBeh::Counter(a, b) => J::Arr(vec![J::s("counter"), J::i(*a), J::i(*b)]),
            SigBeh::Echo(m) => J::Arr(vec![J::s("echo"), J::i(*m)]),
            SigBeh::Const(v) => J::Arr(vec![J::s("const"), v.to_json()]),
            SigBeh::DoneAfter(t) => J::Arr(vec![J::s("doneAfter"), J::i(*t)]),
            SigBeh::Script(vals) => {
                J::Arr(vec![J::s("script"), J::arr(vals, |v| v.to_json())])
            }
        }
    }
    pub fn from_json(j: &J) -> Result<SigBeh, String> {
        if let J::Str(s) = j {
            if s == "tagged" {
                return Ok(SigBeh::Tagged);
            }
        }
        let a = j.as_arr()?;
        match (a.first().ok_or("empty behaviour")?.as_str()?, a.len()) {
            ("table", 7) => Ok(SigBeh::Table(TableW {
                small: a[1].as_i64()? as u32,
                byte: a[2].as_i64()? as u32,
                fit: a[3].as_i64()? as u32,
                boundary: a[4].as_i64()? as u32,
                z: a[5].as_i64()? as u32,
                x: a[6].as_i64()? as u32,
            })),
            ("counter", 3) => Ok(SigBeh::Counter(a[1].as_i64()?, a[2].as_i64()?)),
            ("echo", 2) => Ok(SigBeh::Echo(a[1].as_i64()? as u32)),
            ("const", 2) => Ok(SigBeh::Const(OutVal::from_json(&a[1])?)),
            ("doneAfter", 2) => Ok(SigBeh::DoneAfter(a[1].as_u64()?)),
            ("script", 2) => Ok(SigBeh::Script(
                a[1].as_arr()?
                    .iter()
                    .map(OutVal::from_json)
                    .collect::<Result<_, _>>()?,
            )),
            _ => Err(format!("bad behaviour {j:?}")),
        }
    }
}

impl FaultKind {
    pub fn name(&self) -> &'static str {
        match self {
            FaultKind::Error => "error",
            FaultKind::Drop(_) => "drop",
            FaultKind::AddForeign => "add",
            FaultKind::InsertForeign(_) => "insert",
            FaultKind::AddManyForeign(_) => "addMany",
            FaultKind::DropMany(_) => "dropMany",
            FaultKind::Dup(_) => "dup",
            FaultKind::Swap(..) => "swap",
            FaultKind::SubstName(_) => "substName",
            FaultKind::SubstBits(_) => "substBits",
            FaultKind::SubstKind(_) => "substKind",
            FaultKind::PermanentForeign(_) => "permanentForeign",
            FaultKind::PermanentAlias(_) => "permanentAlias",
            FaultKind::Value(..) => "value",
        }
    }
    pub fn to_json(&self) -> J {
        let mut a = vec![J::s(self.name())];
        match self {
            FaultKind::Error | FaultKind::AddForeign => {}
            FaultKind::Drop(p)
            | FaultKind::AddManyForeign(p)
            | FaultKind::DropMany(p)
            | FaultKind::InsertForeign(p)
            | FaultKind::Dup(p)
            | FaultKind::SubstName(p)
            | FaultKind::SubstBits(p)
            | FaultKind::SubstKind(p)
            | FaultKind::PermanentAlias(p)
            | FaultKind::PermanentForeign(p) => a.push(J::u(*p)),
            FaultKind::Swap(p, q) => {
                a.push(J::u(*p));
                a.push(J::u(*q));
            }
            FaultKind::Value(p, v) => {
                a.push(J::u(*p));
                a.push(v.to_json());
            }
        }
        J::Arr(a)
    }
    pub fn from_json(j: &J) -> Result<FaultKind, String> {
        let a = j.as_arr()?;
        let name = a.first().ok_or("empty fault")?.as_str()?;
        let p = |i: usize| -> Result<usize, String> {
            a.get(i).ok_or("missing fault argument")?.as_usize()
        };
        Ok(match name {
            "error" => FaultKind::Error,
            "add" => FaultKind::AddForeign,
            "drop" => FaultKind::Drop(p(1)?),
            "insert" => FaultKind::InsertForeign(p(1)?),
            "addMany" => FaultKind::AddManyForeign(p(1)?),
            "dropMany" => FaultKind::DropMany(p(1)?),
            "dup" => FaultKind::Dup(p(1)?),
            "substName" => FaultKind::SubstName(p(1)?),
            "substBits" => FaultKind::SubstBits(p(1)?),
            "substKind" => FaultKind::SubstKind(p(1)?),
            "permanentForeign" => FaultKind::PermanentForeign(p(1)?),
            "permanentAlias" => FaultKind::PermanentAlias(p(1)?),
            "swap" => FaultKind::Swap(p(1)?, p(2)?),
            "value" => FaultKind::Value(
                p(1)?,
                OutVal::from_json(a.get(2).ok_or("missing fault value")?)?,
            ),
            _ => return Err(format!("bad fault {j:?}")),
        })
    }
}

impl DutSpec {
    pub fn to_json(&self) -> J {
        J::obj()
            .set(
                "layout",
                J::arr(&self.layout, |(s, b)| {
                    J::obj().set("signal", s.to_json()).set("behaviour", b.to_json())
                }),
            )
            .set("seed", J::i(self.seed))
            .set("overrides_write_input", J::Bool(self.overrides_write))
            .set("in_place_signal_table", J::Bool(self.in_place))
            .set("table_memory_order_alternates", J::Bool(self.alternate_memory))
            .set("hold_answers_for_calls", J::i(self.hold))
            .set(
                "faults",
                J::arr(&self.faults, |f| {
                    J::obj()
                        .set("at_call", J::i(f.at_call))
                        .set("kind", f.kind.to_json())
                        .set("id", J::i(f.id))
                }),
            )
    }
    pub fn from_json(j: &J) -> Result<DutSpec, String> {
        let layout = j
            .req("layout")?
            .as_arr()?
            .iter()
            .map(|e| {
                Ok((
                    SigSpec::from_json(e.req("signal")?)?,
                    SigBeh::from_json(e.req("behaviour")?)?,
                ))
            })
            .collect::<Result<Vec<_>, String>>()?;
        let faults = j
            .req("faults")?
            .as_arr()?
            .iter()
            .map(|f| {
                Ok(Fault {
                    at_call: f.req("at_call")?.as_u64()?,
                    kind: FaultKind::from_json(f.req("kind")?)?,
                    id: f.req("id")?.as_u64()?,
                })
            })
            .collect::<Result<Vec<_>, String>>()?;
        Ok(DutSpec {
            layout,
            seed: j.req("seed")?.as_u64()?,
            overrides_write: j.req("overrides_write_input")?.as_bool()?,
            in_place: match j.get("in_place_signal_table") {
                Some(b) => b.as_bool()?,
                None => false,
            },
            alternate_memory: match j.get("table_memory_order_alternates") {
                Some(b) => b.as_bool()?,
                None => false,
            },
            hold: match j.get("hold_answers_for_calls") {
                Some(v) => v.as_u64()? as u32,
                None => 1,
            },
            faults,
        })
    }
}
