//! Oracles: functions over the recorded history (and, where a model exists, the reference
//! run). Each returns the first violation it finds, tagged with an oracle id.

use crate::case::Case;
use crate::dut::{decode_tag, CallRec, ModelAnswer, SigBeh, SigId};
use crate::model::*;
use crate::reference::{CallKind, ErrClass, RefCtor, RefItem, RefRun};
use crate::run::{Ctor, IterHist, Item, RKind, RealSig, RowRec, RunOut};

#[derive(Clone, Debug, PartialEq, Eq)]
pub struct Violation {
    pub oracle: &'static str,
    pub detail: String,
}

fn v(oracle: &'static str, detail: String) -> Option<Violation> {
    Some(Violation { oracle, detail })
}

#[derive(Clone, Copy, Debug, PartialEq, Eq)]
pub enum What {
    Ctor,
    CallCount,
    CallKind,
    CallInputs,
    ItemClass,
    RowInputs,
    RowExpected,
    DeviceOutputs,
    VirtualOutputs,
    RowShape,
    Env,
    DriverErrId,
}

#[derive(Clone, Debug)]
pub struct Mismatch {
    /// None = constructor
    pub step: Option<usize>,
    pub what: What,
    pub detail: String,
}

/// names of the input-capable signals, in signal-list order, with their index
pub fn input_sigs(sigs: &[RealSig]) -> Vec<u32> {
    sigs.iter()
        .enumerate()
        .filter(|(_, s)| s.is_input())
        .map(|(i, _)| i as u32)
        .collect()
}

pub fn expected_sigs(sigs: &[RealSig]) -> Vec<u32> {
    sigs.iter()
        .enumerate()
        .filter(|(_, s)| s.is_expected())
        .map(|(i, _)| i as u32)
        .collect()
}

fn fmt_in(vals: &[InVal]) -> String {
    let parts: Vec<String> = vals
        .iter()
        .map(|v| match v {
            InVal::Num(n) => n.to_string(),
            InVal::Z => "Z".into(),
        })
        .collect();
    format!("[{}]", parts.join(" "))
}

fn call_values(c: &CallRec) -> Vec<InVal> {
    c.inputs.iter().map(|i| i.value).collect()
}

fn runtime_matches(class: ErrClass, text: &str) -> bool {
    // the library's runtime errors are opaque; only the one distinction the properties make
    // (C13: a layout deviation is reported as such, C04/C14: a Z/X read as such) is looked at,
    // and only loosely: any runtime error item is accepted for any class
    let _ = (class, text);
    true
}

/// Step-by-step comparison of one iterator's history with the reference run. `care` selects
/// the categories that count. Returns the first mismatch in a category that counts.
pub fn lockstep(
    out: &RunOut,
    it: &IterHist,
    r: &RefRun,
    overrides_write: bool,
    care: &dyn Fn(What) -> bool,
) -> Option<Mismatch> {
    let ins = input_sigs(&out.sigs);
    let exps = expected_sigs(&out.sigs);
    let mm = |step: Option<usize>, what: What, detail: String| -> Option<Mismatch> {
        if care(what) {
            Some(Mismatch { step, what, detail })
        } else {
            None
        }
    };
    // --- constructor
    let Some(ctor) = &it.ctor else {
        return None;
    };
    let n_ctor_calls = it.ctor_calls.1 - it.ctor_calls.0;
    if n_ctor_calls != 1 {
        if let Some(m) = mm(
            None,
            What::Ctor,
            format!("constructor made {n_ctor_calls} driver calls, expected exactly 1"),
        ) {
            return Some(m);
        }
    } else {
        let c = &it.calls[it.ctor_calls.0];
        if c.write_only {
            if let Some(m) = mm(None, What::Ctor, "constructor used the write-only call".into()) {
                return Some(m);
            }
        }
        let sigs: Vec<u32> = c.inputs.iter().map(|i| i.sig).collect();
        if sigs != ins || call_values(c) != r.ctor_inputs {
            if let Some(m) = mm(
                None,
                What::Ctor,
                format!(
                    "constructor sent {} for signals {:?}, expected the defaults {} for {:?}",
                    fmt_in(&call_values(c)),
                    sigs,
                    fmt_in(&r.ctor_inputs),
                    ins
                ),
            ) {
                return Some(m);
            }
        }
    }
    let ctor_ok = match (ctor, &r.ctor) {
        (Ctor::Ok, RefCtor::Ok) => true,
        (Ctor::DriverErr(a), RefCtor::DriverErr(b)) => a == b,
        (Ctor::RuntimeErr(_), RefCtor::RuntimeErr(_)) => true,
        _ => false,
    };
    if !ctor_ok {
        return mm(
            None,
            What::Ctor,
            format!("constructor returned {ctor:?}, reference says {:?}", r.ctor),
        );
    }
    if *ctor != Ctor::Ok {
        return None;
    }
    // --- steps
    let limit = r.unspecified.as_ref().map(|u| u.0).unwrap_or(usize::MAX);
    for (j, step) in it.steps.iter().enumerate() {
        if j >= limit {
            return None;
        }
        let Some(rs) = r.steps.get(j) else {
            // beyond the reference: fine if the reference was cut by the cap, or if both are
            // at the end (next() after None)
            if r.truncated {
                return None;
            }
            let ref_ended = matches!(r.steps.last().map(|s| &s.item), Some(RefItem::End));
            if ref_ended && step.item == Item::End && step.calls.0 == step.calls.1 {
                continue;
            }
            return mm(
                Some(j),
                What::ItemClass,
                format!(
                    "step {j}: the run continues with a {} but the reference run has ended \
                     after {} steps ({:?})",
                    step.item.class(),
                    r.steps.len(),
                    r.steps.last().map(|s| &s.item)
                ),
            );
        };
        // calls made inside this next()
        let calls = &it.calls[step.calls.0..step.calls.1];
        let want_calls = rs.call.is_some() as usize;
        if calls.len() != want_calls {
            if let Some(m) = mm(
                Some(j),
                What::CallCount,
                format!(
                    "step {j}: next() made {} driver calls, reference makes {}",
                    calls.len(),
                    want_calls
                ),
            ) {
                return Some(m);
            }
        }
        if let (Some(c), Some(rc)) = (calls.first(), &rs.call) {
            let want_wo = rc.kind == CallKind::W && overrides_write;
            if c.write_only != want_wo {
                if let Some(m) = mm(
                    Some(j),
                    What::CallKind,
                    format!(
                        "step {j}: driver call arrived as {}, reference expects {}",
                        if c.write_only { "write-only" } else { "output-reading" },
                        if want_wo { "write-only" } else { "output-reading" },
                    ),
                ) {
                    return Some(m);
                }
            }
            let sigs: Vec<u32> = c.inputs.iter().map(|i| i.sig).collect();
            if sigs != ins || call_values(c) != rc.inputs {
                if let Some(m) = mm(
                    Some(j),
                    What::CallInputs,
                    format!(
                        "step {j}: device received {} (signals {:?}), reference sends {} \
                         (signals {:?})",
                        fmt_in(&call_values(c)),
                        sigs,
                        fmt_in(&rc.inputs),
                        ins
                    ),
                ) {
                    return Some(m);
                }
            }
        }
        // item
        match (&step.item, &rs.item) {
            (Item::End, RefItem::End) => {}
            (Item::DriverErr(a), RefItem::DriverErr(b)) => {
                if a != b {
                    if let Some(m) = mm(
                        Some(j),
                        What::DriverErrId,
                        format!("step {j}: driver error #{a} reported, #{b} was injected"),
                    ) {
                        return Some(m);
                    }
                }
            }
            (Item::RuntimeErr(text), RefItem::RuntimeErr(class)) => {
                if !runtime_matches(*class, text) {
                    return mm(Some(j), What::ItemClass, format!("step {j}: {text} vs {class:?}"));
                }
            }
            (Item::Row(row), RefItem::Row { inputs, outputs }) => {
                let sigs: Vec<u32> = row.inputs.iter().map(|i| i.sig).collect();
                let vals: Vec<InVal> = row.inputs.iter().map(|i| i.value).collect();
                if sigs != ins || vals != *inputs {
                    if let Some(m) = mm(
                        Some(j),
                        What::RowInputs,
                        format!(
                            "step {j}: row inputs {} (signals {:?}), reference {} (signals {:?})",
                            fmt_in(&vals),
                            sigs,
                            fmt_in(inputs),
                            ins
                        ),
                    ) {
                        return Some(m);
                    }
                }
                if outputs.is_empty() {
                    if !row.outputs.is_empty() {
                        if let Some(m) = mm(
                            Some(j),
                            What::RowShape,
                            format!(
                                "step {j}: a mid-clock row carries {} outputs, expected none",
                                row.outputs.len()
                            ),
                        ) {
                            return Some(m);
                        }
                    }
                } else {
                    let osigs: Vec<u32> = row.outputs.iter().map(|o| o.sig).collect();
                    if osigs != exps {
                        if let Some(m) = mm(
                            Some(j),
                            What::RowShape,
                            format!(
                                "step {j}: checked row has outputs for signals {:?}, expected one \
                                 per output-capable or virtual signal {:?}",
                                osigs, exps
                            ),
                        ) {
                            return Some(m);
                        }
                    } else {
                        for o in &row.outputs {
                            let sig = &out.sigs[o.sig as usize];
                            let Some((_, exp, outv)) =
                                outputs.iter().find(|(n, _, _)| *n == sig.name)
                            else {
                                continue;
                            };
                            if o.expected != *exp {
                                if let Some(m) = mm(
                                    Some(j),
                                    What::RowExpected,
                                    format!(
                                        "step {j}: expected value of {} is {:?}, reference {:?}",
                                        sig.name, o.expected, exp
                                    ),
                                ) {
                                    return Some(m);
                                }
                            }
                            if o.output != *outv {
                                let what = if sig.kind == RKind::Virtual {
                                    What::VirtualOutputs
                                } else {
                                    What::DeviceOutputs
                                };
                                if let Some(m) = mm(
                                    Some(j),
                                    what,
                                    format!(
                                        "step {j}: output of {} is {:?}, reference {:?}",
                                        sig.name, o.output, outv
                                    ),
                                ) {
                                    return Some(m);
                                }
                            }
                        }
                    }
                }
            }
            (real, reference) => {
                // an implementation that, asked again after a failed statement, fails in the
                // same way again (retries it) instead of moving on is not at fault: what
                // follows an error item is only judged when the run does move on
                if j > 0
                    && matches!(real, Item::RuntimeErr(_))
                    && r.steps[j - 1].continues
                    && it.steps[j - 1].item == *real
                    && step.calls.0 == step.calls.1
                {
                    return None;
                }
                if let Some(m) = mm(
                    Some(j),
                    What::ItemClass,
                    format!(
                        "step {j}: next() returned {} ({}), reference: {:?}",
                        real.class(),
                        brief_item(real),
                        reference
                    ),
                ) {
                    return Some(m);
                }
                return None;
            }
        }
        // vars() inspections after this step
        if care(What::Env) {
            for vr in it.vars.iter().filter(|vr| vr.after_steps == j + 1) {
                if let (Ok(vars), RefItem::Row { .. }) = (&vr.result, &rs.item) {
                    if *vars != rs.env {
                        return Some(Mismatch {
                            step: Some(j),
                            what: What::Env,
                            detail: format!(
                                "after step {j}: vars() = {:?}, reference environment {:?}",
                                vars, rs.env
                            ),
                        });
                    }
                }
            }
        }
        // a run that ended with an error item is over, unless the reference knows how it
        // goes on; even then only rows that are still yielded are judged (an implementation
        // that ends the iteration after an error item is not at fault)
        if !matches!(step.item, Item::Row(_) | Item::End) {
            if !rs.continues {
                return None;
            }
            if matches!(it.steps.get(j + 1).map(|s| &s.item), Some(Item::End) | None) {
                return None;
            }
        }
    }
    None
}

pub fn brief_item(item: &Item) -> String {
    match item {
        Item::Row(r) => format!("row line {}", r.line),
        Item::RuntimeErr(s) => s.chars().take(160).collect(),
        Item::DriverErr(id) => format!("driver error #{id}"),
        Item::End => "None".into(),
        Item::Panic(p) => p.show(),
    }
}

// ---------------------------------------------------------------------------------------
// history-only oracles

/// Any panic anywhere (C10.panic). Panics raised by the harness itself are reported apart.
pub fn find_panic(out: &RunOut) -> Option<crate::run::PanicInfo> {
    if let crate::run::Load::Panic(p) = &out.load {
        return Some(p.clone());
    }
    for it in &out.iters {
        if let Some(Ctor::Panic(p)) = &it.ctor {
            return Some(p.clone());
        }
        for s in &it.steps {
            if let Item::Panic(p) = &s.item {
                return Some(p.clone());
            }
        }
        for vr in &it.vars {
            if let Err(p) = &vr.result {
                return Some(p.clone());
            }
        }
    }
    match &out.statik {
        Some(crate::run::StaticHist::Panic(p)) => return Some(p.clone()),
        Some(crate::run::StaticHist::Ran(items)) => {
            for i in items {
                if let crate::run::StaticItem::Panic(p) = i {
                    return Some(p.clone());
                }
            }
        }
        _ => {}
    }
    None
}

/// C02: the driver protocol, from the two-sided history alone.
pub fn c02_protocol(case: &Case, out: &RunOut, it: &IterHist, dut_idx: usize) -> Option<Violation> {
    let Some(ctor) = &it.ctor else { return None };
    let ins = input_sigs(&out.sigs);
    let overrides = case.duts[dut_idx].overrides_write;
    // constructor: exactly one output-reading call with the defaults
    if matches!(ctor, Ctor::Panic(_)) {
        return None;
    }
    let n = it.ctor_calls.1 - it.ctor_calls.0;
    if n != 1 {
        return v(
            "C02.ctor",
            format!("constructing the iterator made {n} driver calls, expected exactly 1"),
        );
    }
    let c = &it.calls[it.ctor_calls.0];
    if c.write_only {
        return v("C02.ctor", "the constructor's call was write-only".into());
    }
    let sigs: Vec<u32> = c.inputs.iter().map(|i| i.sig).collect();
    if sigs != ins {
        return v(
            "C02.ctor",
            format!("the constructor's call carries signals {sigs:?}, expected one entry per input-capable signal {ins:?}"),
        );
    }
    for i in &c.inputs {
        let want = out.sigs[i.sig as usize].default.unwrap();
        if i.value != want {
            return v(
                "C02.ctor",
                format!(
                    "the constructor sent {:?} for {}, its default is {:?}",
                    i.value, out.sigs[i.sig as usize].name, want
                ),
            );
        }
    }
    if it.stray_calls != 0 {
        return v(
            "C02.lazy",
            format!(
                "{} driver calls happened outside the constructor and outside any next()",
                it.stray_calls
            ),
        );
    }
    let mut ended = false;
    for (j, s) in it.steps.iter().enumerate() {
        let calls = &it.calls[s.calls.0..s.calls.1];
        match &s.item {
            Item::Row(row) => {
                if calls.len() != 1 {
                    return v(
                        "C02.one",
                        format!(
                            "step {j}: the next() that yielded a row made {} driver calls",
                            calls.len()
                        ),
                    );
                }
                let c = &calls[0];
                if c.inputs != row.inputs {
                    return v(
                        "C02.verbatim",
                        format!(
                            "step {j}: the device received {:?} but the row reports inputs {:?}",
                            c.inputs, row.inputs
                        ),
                    );
                }
                let sigs: Vec<u32> = row.inputs.iter().map(|i| i.sig).collect();
                if sigs != ins {
                    return v(
                        "C02.verbatim",
                        format!("step {j}: row inputs are for signals {sigs:?}, expected {ins:?}"),
                    );
                }
                if overrides {
                    if c.write_only && !row.outputs.is_empty() {
                        return v(
                            "C02.kind",
                            format!("step {j}: a row with outputs was sent through the write-only call"),
                        );
                    }
                    if !c.write_only && row.outputs.is_empty() && !expected_sigs(&out.sigs).is_empty()
                    {
                        return v(
                            "C02.kind",
                            format!("step {j}: a row without outputs (mid-clock) used the output-reading call although the driver implements write_input"),
                        );
                    }
                } else if c.write_only {
                    return v("C02.kind", format!("step {j}: impossible write-only call"));
                }
            }
            Item::DriverErr(_) => {
                if calls.len() != 1 {
                    return v(
                        "C02.one",
                        format!(
                            "step {j}: a driver-error item came with {} driver calls",
                            calls.len()
                        ),
                    );
                }
                if !matches!(calls[0].answer, ModelAnswer::Err(_)) {
                    return v(
                        "C02.one",
                        format!("step {j}: a driver-error item although the call in its window succeeded"),
                    );
                }
            }
            Item::RuntimeErr(_) => {
                if calls.len() > 1 {
                    return v(
                        "C02.one",
                        format!(
                            "step {j}: a runtime-error item came with {} driver calls",
                            calls.len()
                        ),
                    );
                }
            }
            Item::End => {
                if !calls.is_empty() {
                    return v(
                        if ended { "C02.after_none" } else { "C02.one" },
                        format!(
                            "step {j}: next() returned None but made {} driver calls",
                            calls.len()
                        ),
                    );
                }
                ended = true;
            }
            Item::Panic(_) => return None,
        }
        if ended && !matches!(s.item, Item::End) {
            return v(
                "C02.after_none",
                format!("step {j}: next() returned {} after None", s.item.class()),
            );
        }
    }
    for vr in &it.vars {
        if vr.calls != 0 {
            return v(
                "C02.lazy",
                format!("vars() made {} driver calls", vr.calls),
            );
        }
    }
    None
}

/// the value the DUT reported for test signal `sig` in this call
fn reported(c: &CallRec, sig: u32) -> Option<Option<OutVal>> {
    match &c.answer {
        ModelAnswer::Ok(ans) => Some(
            ans.iter()
                .find(|(id, _)| *id == SigId::Test(sig))
                .map(|(_, v)| *v),
        ),
        _ => None,
    }
}

fn check_pred(expected: ExpVal, output: OutVal) -> bool {
    match expected {
        ExpVal::X => true,
        ExpVal::Z => output == OutVal::Z,
        ExpVal::Num(n) => output == OutVal::Num(n),
    }
}

/// C03: attribution of outputs and the verdict predicates, from the history alone.
pub fn c03_attribution(out: &RunOut, it: &IterHist) -> Option<Violation> {
    for (j, s) in it.steps.iter().enumerate() {
        let Item::Row(row) = &s.item else { continue };
        if row.outputs.is_empty() {
            continue;
        }
        let calls = &it.calls[s.calls.0..s.calls.1];
        let Some(c) = calls.last() else { continue };
        if let Some(viol) = row_attribution("C03.attr", out, row, c, j) {
            return Some(viol);
        }
        if let Some(viol) = row_verdicts(out, row, j) {
            return Some(viol);
        }
    }
    None
}

pub fn row_attribution(
    oracle: &'static str,
    out: &RunOut,
    row: &RowRec,
    c: &CallRec,
    j: usize,
) -> Option<Violation> {
    for o in &row.outputs {
        let Some(sig) = out.sigs.get(o.sig as usize) else {
            return v(oracle, format!("step {j}: output entry for an unknown signal"));
        };
        if !sig.is_device_output() {
            continue;
        }
        let Some(rep) = reported(c, o.sig) else { continue };
        let want = rep.unwrap_or(OutVal::X);
        if o.output != want {
            return v(
                oracle,
                format!(
                    "step {j}: row reports {:?} for {}, but in the call made for this row the \
                     device reported {} for that signal (answer: {:?})",
                    o.output,
                    sig.name,
                    match rep {
                        Some(x) => format!("{x:?}"),
                        None => "nothing (so X is expected)".into(),
                    },
                    c.answer
                ),
            );
        }
    }
    None
}

pub fn row_verdicts(out: &RunOut, row: &RowRec, j: usize) -> Option<Violation> {
    let mut failing = vec![];
    for (p, o) in row.outputs.iter().enumerate() {
        let name = out
            .sigs
            .get(o.sig as usize)
            .map(|s| s.name.as_str())
            .unwrap_or("?");
        let want = check_pred(o.expected, o.output);
        if o.check != want {
            return v(
                "C03.check",
                format!(
                    "step {j}: check() is {} for {name} with expected {:?} and output {:?}",
                    o.check, o.expected, o.output
                ),
            );
        }
        let want_checked = o.expected != ExpVal::X;
        if o.is_checked != want_checked {
            return v(
                "C03.check",
                format!(
                    "step {j}: is_checked() is {} for {name} with expected {:?}",
                    o.is_checked, o.expected
                ),
            );
        }
        if !want {
            failing.push(p as u32);
        }
    }
    match &row.failing {
        None => v(
            "C03.failing",
            format!("step {j}: failing_outputs() returned something that is not an entry of the row"),
        ),
        Some(f) if *f != failing => v(
            "C03.failing",
            format!(
                "step {j}: failing_outputs() returned positions {f:?}, the entries that do not \
                 pass are {failing:?}"
            ),
        ),
        _ => None,
    }
}

/// C06.changed: an input entry whose `changed` flag is false carries the same value that
/// signal had in the previous input vector handed to the driver.
pub fn c06_changed(out: &RunOut, it: &IterHist) -> Option<Violation> {
    for k in 1..it.calls.len() {
        let (prev, cur) = (&it.calls[k - 1], &it.calls[k]);
        for i in &cur.inputs {
            if i.changed {
                continue;
            }
            let before = prev.inputs.iter().find(|p| p.sig == i.sig);
            match before {
                Some(p) if p.value == i.value => {}
                other => {
                    let name = out
                        .sigs
                        .get(i.sig as usize)
                        .map(|s| s.name.as_str())
                        .unwrap_or("?");
                    return v(
                        "C06.changed",
                        format!(
                            "call {k}: {name} = {:?} is flagged unchanged, but the previous \
                             vector handed to the driver had {:?}",
                            i.value,
                            other.map(|p| p.value)
                        ),
                    );
                }
            }
        }
    }
    None
}

/// header-omitted inputs are never flagged as changed
pub fn c06_omitted_never_changed(_case: &Case, out: &RunOut, it: &IterHist) -> Option<Violation> {
    for (k, c) in it.calls.iter().enumerate() {
        for i in &c.inputs {
            let Some(sig) = out.sigs.get(i.sig as usize) else { continue };
            if !out.header.contains(&sig.name) && i.changed {
                return v(
                    "C06.changed",
                    format!(
                        "call {k}: {} is not in the header (always at its default) but is flagged changed",
                        sig.name
                    ),
                );
            }
        }
    }
    None
}

/// C04.decode / C14.decode helpers: identity of tagged values
pub fn tagged_signals(case: &Case, dut_idx: usize) -> Vec<String> {
    case.duts[dut_idx]
        .layout
        .iter()
        .filter(|(_, b)| *b == SigBeh::Tagged)
        .map(|(s, _)| s.name.clone())
        .collect()
}

/// C14.decode: `declare V = Q;` with Q tagged: V's output must decode to (the call made for
/// this row, Q).
pub fn c14_decode(case: &Case, out: &RunOut, it: &IterHist) -> Option<Violation> {
    let tagged = tagged_signals(case, 0);
    let salt = (case.duts[0].seed % 1000) as i64;
    for (vname, expr) in case.program.declares() {
        let Expr::Id(q) = expr else { continue };
        if !tagged.contains(q) {
            continue;
        }
        let Some(qidx) = out.sigs.iter().position(|s| s.name == *q) else { continue };
        let Some(vidx) = out.sigs.iter().position(|s| s.name == vname) else { continue };
        for (j, s) in it.steps.iter().enumerate() {
            let Item::Row(row) = &s.item else { continue };
            if row.outputs.is_empty() || s.calls.1 == s.calls.0 {
                continue;
            }
            let call_no = s.calls.1 - 1;
            let Some(o) = row.outputs.iter().find(|o| o.sig as usize == vidx) else {
                return v(
                    "C14.entry",
                    format!("step {j}: checked row has no entry for virtual signal {vname}"),
                );
            };
            match o.output {
                OutVal::Num(val) => {
                    let d = decode_tag(val);
                    if d != Some((call_no as u64, qidx % 1000, salt)) {
                        return v(
                            "C14.decode",
                            format!(
                                "step {j}: virtual signal {vname} = {q} has value {val} which \
                                 decodes to {d:?}; the call made for this row is #{call_no}, \
                                 signal id {qidx}"
                            ),
                        );
                    }
                }
                other => {
                    return v(
                        "C14.decode",
                        format!("step {j}: virtual signal {vname} = {q} reported as {other:?}"),
                    )
                }
            }
        }
    }
    None
}

/// C04.decode: an input column that always holds the identity read `(Q)` with Q tagged and
/// the input wide enough: the value the device receives decodes to (call, Q) where call is
/// the latest call whose answer the library received before the row was evaluated.
/// Only rows without X expansion are judged (for those "before the row was evaluated" is
/// "before the first call of the row's clock triple").
pub fn c04_decode(case: &Case, out: &RunOut, it: &IterHist) -> Option<Violation> {
    let tagged = tagged_signals(case, 0);
    if tagged.is_empty() {
        return None;
    }
    let salt = (case.duts[0].seed % 1000) as i64;
    // which received values are tagged at all: decode every value >= TAG_CALL with right salt
    // library-level reading calls so far: constructor + rows with outputs
    let mut last_read: u64 = 0; // the constructor's call
    let mut triple_anchor: Option<u64> = None;
    for (j, s) in it.steps.iter().enumerate() {
        if let Item::RuntimeErr(_) = &s.item {
            // (continue-after-error mode) a runtime error that came with a successful call
            // can only be a checked row whose answer was received and then found wanting
            if s.calls.1 > s.calls.0
                && matches!(it.calls[s.calls.1 - 1].answer, ModelAnswer::Ok(_))
            {
                last_read = (s.calls.1 - 1) as u64;
                triple_anchor = None;
            }
            continue;
        }
        let Item::Row(row) = &s.item else { continue };
        if s.calls.1 == s.calls.0 {
            continue;
        }
        let call_no = (s.calls.1 - 1) as u64;
        let anchor = triple_anchor.unwrap_or(last_read);
        for i in &row.inputs {
            let Some(sig) = out.sigs.get(i.sig as usize) else { continue };
            if sig.bits < 60 {
                continue;
            }
            let InVal::Num(val) = i.value else { continue };
            // is this column an identity read in every row of the program?
            let Some(q) = identity_column(case, &sig.name) else { continue };
            if !tagged.contains(&q) {
                continue;
            }
            let Some(qidx) = out.sigs.iter().position(|s| s.name == q) else { continue };
            let d = decode_tag(val);
            let ok = match d {
                Some((c, sid, sl)) => sid == qidx % 1000 && sl == salt && c == anchor,
                None => false,
            };
            if !ok {
                return v(
                    "C04.decode",
                    format!(
                        "step {j} (call #{call_no}): input {} = ({q}) carries {val}, which \
                         decodes to {d:?}; the latest output-reading call before this row was \
                         evaluated is #{anchor}, signal id {qidx}",
                        sig.name
                    ),
                );
            }
        }
        if row.outputs.is_empty() {
            // mid-clock row: the anchor stays what it was when the triple started
            triple_anchor = Some(anchor);
        } else {
            triple_anchor = None;
            last_read = call_no;
        }
    }
    None
}

/// Some(Q) if every row of the program has the identity read `(Q)` in the column named
/// `col` and no row has an input X anywhere (so expansions are clock triples only) and no
/// variable named Q is ever bound.
pub fn identity_column(case: &Case, col: &str) -> Option<String> {
    let pos = case.program.header.iter().position(|h| h == col)?;
    let mut q: Option<String> = None;
    let mut ok = true;
    fn entry_at(entries: &[Entry], pos: usize) -> Option<&Entry> {
        let mut c = 0;
        for e in entries {
            if c == pos && e.width() == 1 {
                return Some(e);
            }
            if c <= pos && pos < c + e.width() {
                return None;
            }
            c += e.width();
        }
        None
    }
    let in_names: Vec<&str> = case
        .signals
        .iter()
        .filter(|s| s.is_input())
        .map(|s| s.name.as_str())
        .collect();
    fn walk(
        stmts: &[Stmt],
        pos: usize,
        q: &mut Option<String>,
        ok: &mut bool,
        header: &[String],
        in_names: &[&str],
    ) {
        for s in stmts {
            match s {
                Stmt::Row(entries) | Stmt::Repeat(_, entries) => {
                    // no input X anywhere in the row
                    let mut c = 0;
                    for e in entries {
                        if *e == Entry::X && in_names.contains(&header[c].as_str()) {
                            *ok = false;
                        }
                        c += e.width();
                    }
                    match entry_at(entries, pos) {
                        Some(Entry::Expr(Expr::Id(name))) => match q {
                            None => *q = Some(name.clone()),
                            Some(prev) if prev == name => {}
                            _ => *ok = false,
                        },
                        _ => *ok = false,
                    }
                    if matches!(s, Stmt::Repeat(..)) && q.as_deref() == Some("n") {
                        *ok = false;
                    }
                }
                Stmt::Loop(var, _, body) => {
                    if q.as_deref() == Some(var.as_str()) {
                        *ok = false;
                    }
                    walk(body, pos, q, ok, header, in_names)
                }
                Stmt::While(_, body) => walk(body, pos, q, ok, header, in_names),
                Stmt::Let(..) | Stmt::ResetRandom | Stmt::Declare(..) => {}
            }
        }
    }
    walk(&case.program.stmts, pos, &mut q, &mut ok, &case.program.header, &in_names);
    let q = q?;
    // no variable of that name anywhere
    fn binds(stmts: &[Stmt], name: &str) -> bool {
        stmts.iter().any(|s| match s {
            Stmt::Let(n, _) => n == name,
            Stmt::Loop(v, _, b) => v == name || binds(b, name),
            Stmt::While(_, b) => binds(b, name),
            Stmt::Repeat(..) => name == "n",
            _ => false,
        })
    }
    if !ok || binds(&case.program.stmts, &q) {
        return None;
    }
    Some(q)
}
