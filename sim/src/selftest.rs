//! Golden cases for the reference model alone, hand-derived from the property texts (and from
//! the repository's own expansion tests). They validate the oracle independently of the
//! implementation; the second validation is agreement with the implementation on the clean
//! tree (`traces_validated_against_impl`).

use crate::dut::{DutSpec, SigBeh};
use crate::model::*;
use crate::reference::{run_reference, CallKind, RefInput, RefItem};
use crate::run::Draw;

fn sig(name: &str, bits: u32, kind: SigKind) -> SigSpec {
    SigSpec {
        name: name.into(),
        bits,
        kind,
        default: InVal::Num(0),
    }
}

struct T {
    signals: Vec<SigSpec>,
    program: Program,
    dut: DutSpec,
    draws: Vec<Draw>,
}

fn t(signals: Vec<SigSpec>, header: &[&str], stmts: Vec<Stmt>, layout: Vec<(&str, SigBeh)>) -> T {
    let layout = layout
        .into_iter()
        .map(|(n, b)| {
            (
                signals.iter().find(|s| s.name == n).unwrap().clone(),
                b,
            )
        })
        .collect();
    T {
        signals,
        program: Program {
            header: header.iter().map(|s| s.to_string()).collect(),
            stmts,
        },
        dut: DutSpec {
            layout,
            seed: 7,
            overrides_write: true,
            in_place: false,
            alternate_memory: false,
            hold: 1,
            faults: vec![],
        },
        draws: vec![],
    }
}

/// rows as (kind, input values) and the final item
fn rows(t: &T) -> (Vec<(char, Vec<i64>)>, String) {
    let virt: Vec<String> = t
        .program
        .declares()
        .iter()
        .map(|(n, _)| n.to_string())
        .collect();
    let r = run_reference(&RefInput {
        signals: &t.signals,
        program: &t.program,
        dut: &t.dut,
        draws: &t.draws,
        max_steps: 1000,
        virtual_order: &virt,
        continue_after_error: false,
    });
    let mut out = vec![];
    let mut last = String::from("?");
    for s in &r.steps {
        match &s.item {
            RefItem::Row { inputs, .. } => {
                let kind = match s.call.as_ref().map(|c| c.kind) {
                    Some(CallKind::W) => 'w',
                    _ => 'r',
                };
                out.push((
                    kind,
                    inputs
                        .iter()
                        .map(|v| match v {
                            InVal::Num(n) => *n,
                            InVal::Z => -999,
                        })
                        .collect(),
                ));
            }
            RefItem::End => last = "end".into(),
            RefItem::RuntimeErr(c) => last = format!("err {c:?}"),
            RefItem::DriverErr(id) => last = format!("driver {id}"),
        }
    }
    if let Some((_, why)) = &r.unspecified {
        last = format!("unspecified: {why}");
    }
    (out, last)
}

fn expected_of(t: &T) -> Vec<Vec<(String, ExpVal, OutVal)>> {
    let virt: Vec<String> = t
        .program
        .declares()
        .iter()
        .map(|(n, _)| n.to_string())
        .collect();
    let r = run_reference(&RefInput {
        signals: &t.signals,
        program: &t.program,
        dut: &t.dut,
        draws: &t.draws,
        max_steps: 1000,
        virtual_order: &virt,
        continue_after_error: false,
    });
    r.steps
        .iter()
        .filter_map(|s| match &s.item {
            RefItem::Row { outputs, .. } => Some(outputs.clone()),
            _ => None,
        })
        .collect()
}

fn e(n: i64) -> Entry {
    Entry::Num(n)
}
fn ex(x: Expr) -> Entry {
    Entry::Expr(x)
}
fn id(s: &str) -> Expr {
    Expr::id(s)
}
fn r(v: &[i64]) -> (char, Vec<i64>) {
    ('r', v.to_vec())
}
fn w(v: &[i64]) -> (char, Vec<i64>) {
    ('w', v.to_vec())
}

pub fn run() -> i32 {
    let mut failed = 0;
    let mut n = 0;
    let mut check = |name: &str, got: (Vec<(char, Vec<i64>)>, String), want: Vec<(char, Vec<i64>)>, end: &str| {
        n += 1;
        if got.0 != want || got.1 != end {
            failed += 1;
            println!("selftest FAILED: {name}\n   got  {:?} / {}\n   want {:?} / {}", got.0, got.1, want, end);
        }
    };
    let a8 = || vec![sig("A", 8, SigKind::In), sig("Q", 8, SigKind::Out)];
    let q0 = || vec![("Q", SigBeh::Const(OutVal::Num(0)))];

    // loop(v,n): once per counter value 0..n-1
    check(
        "loop counts 0..n-1",
        rows(&t(a8(), &["A", "Q"], vec![Stmt::Loop("i".into(), Expr::Num(3), vec![Stmt::Row(vec![ex(id("i")), Entry::X])])], q0())),
        vec![r(&[0]), r(&[1]), r(&[2])],
        "end",
    );
    // not at all when n <= 0
    for b in [0i64, -2] {
        check(
            "zero-trip loop",
            rows(&t(a8(), &["A", "Q"], vec![
                Stmt::Loop("i".into(), Expr::num(b), vec![Stmt::Row(vec![e(9), Entry::X])]),
                Stmt::Row(vec![e(1), Entry::X]),
            ], q0())),
            vec![r(&[1])],
            "end",
        );
    }
    // repeat(n) with counter n
    check(
        "repeat",
        rows(&t(a8(), &["A", "Q"], vec![Stmt::Repeat(Expr::Num(2), vec![ex(Expr::bin(BinOp::Add, id("n"), Expr::Num(5))), Entry::X])], q0())),
        vec![r(&[5]), r(&[6])],
        "end",
    );
    check(
        "repeat(0)",
        rows(&t(a8(), &["A", "Q"], vec![Stmt::Repeat(Expr::Num(0), vec![e(1), Entry::X])], q0())),
        vec![],
        "end",
    );
    // bound evaluated once on entry
    check(
        "bound evaluated once",
        rows(&t(a8(), &["A", "Q"], vec![
            Stmt::Let("m".into(), Expr::Num(2)),
            Stmt::Loop("i".into(), id("m"), vec![
                Stmt::Let("m".into(), Expr::Num(7)),
                Stmt::Row(vec![ex(id("i")), Entry::X]),
            ]),
            Stmt::Row(vec![ex(id("m")), Entry::X]),
        ], q0())),
        // the inner `let m` lives in the loop's scope and disappears; outer m is 2 again
        vec![r(&[0]), r(&[1]), r(&[2])],
        "end",
    );
    // while: as long as c is non-zero; opens no scope
    check(
        "while and let in enclosing scope",
        rows(&t(a8(), &["A", "Q"], vec![
            Stmt::Let("k".into(), Expr::Num(0)),
            Stmt::While(Expr::bin(BinOp::Lt, id("k"), Expr::Num(3)), vec![
                Stmt::Row(vec![ex(id("k")), Entry::X]),
                Stmt::Let("k".into(), Expr::bin(BinOp::Add, id("k"), Expr::Num(1))),
            ]),
            Stmt::Row(vec![ex(id("k")), Entry::X]),
        ], q0())),
        vec![r(&[0]), r(&[1]), r(&[2]), r(&[3])],
        "end",
    );
    // shadowing: innermost wins, uncovered on loop exit; let inside loop lands in loop scope
    check(
        "shadowing depth 3",
        rows(&t(a8(), &["A", "Q"], vec![
            Stmt::Let("a".into(), Expr::Num(10)),
            Stmt::Loop("a".into(), Expr::Num(2), vec![
                Stmt::Row(vec![ex(id("a")), Entry::X]),
                Stmt::Loop("b".into(), Expr::Num(1), vec![
                    Stmt::Let("a".into(), Expr::Num(50)),
                    Stmt::Row(vec![ex(id("a")), Entry::X]),
                ]),
                Stmt::Row(vec![ex(id("a")), Entry::X]),
            ]),
            Stmt::Row(vec![ex(id("a")), Entry::X]),
        ], q0())),
        vec![r(&[0]), r(&[50]), r(&[0]), r(&[1]), r(&[50]), r(&[1]), r(&[10])],
        "end",
    );
    // bindings made in a loop body persist across iterations, vanish at the end
    check(
        "let inside loop persists across iterations",
        rows(&t(a8(), &["A", "Q"], vec![
            Stmt::Let("s".into(), Expr::Num(100)),
            Stmt::Loop("i".into(), Expr::Num(3), vec![
                Stmt::Row(vec![ex(id("s")), Entry::X]),
                Stmt::Let("s".into(), Expr::bin(BinOp::Add, id("s"), Expr::Num(1))),
            ]),
            Stmt::Row(vec![ex(id("s")), Entry::X]),
        ], q0())),
        vec![r(&[100]), r(&[101]), r(&[102]), r(&[100])],
        "end",
    );
    // bits(k,e): most significant bit first
    check(
        "bits MSB first",
        rows(&t(
            vec![sig("A", 1, SigKind::In), sig("B", 1, SigKind::In), sig("D", 1, SigKind::In), sig("Q", 1, SigKind::Out)],
            &["A", "B", "D", "Q"],
            vec![Stmt::Row(vec![Entry::Bits(3, Expr::Num(6)), Entry::X])],
            vec![("Q", SigBeh::Const(OutVal::Num(0)))],
        )),
        vec![r(&[1, 1, 0])],
        "end",
    );
    // values are bound by header name, inputs in signal-list order, defaults for omitted
    {
        let mut sigs = vec![sig("B", 4, SigKind::In), sig("Q", 4, SigKind::Out), sig("A", 4, SigKind::In), sig("D", 4, SigKind::In)];
        sigs[3].default = InVal::Num(9);
        check(
            "binding by name",
            rows(&t(sigs, &["Q", "A", "B"], vec![Stmt::Row(vec![e(1), e(2), e(3)])], vec![("Q", SigBeh::Const(OutVal::Num(0)))])),
            vec![r(&[3, 2, 9])],
            "end",
        );
    }
    // reduction modulo 2^bits
    check(
        "masking",
        rows(&t(vec![sig("A", 4, SigKind::In), sig("Q", 4, SigKind::Out)], &["A", "Q"], vec![
            Stmt::Row(vec![e(255), Entry::X]),
            Stmt::Row(vec![ex(Expr::num(-1)), Entry::X]),
        ], vec![("Q", SigBeh::Const(OutVal::Num(0)))])),
        vec![r(&[15]), r(&[15])],
        "end",
    );
    // C: three writes 0,1,0, outputs read only after the third (repository test iter_with_c_works)
    let clk = || vec![sig("CLK", 1, SigKind::In), sig("IN", 1, SigKind::In), sig("OUT", 1, SigKind::Out)];
    check(
        "clock triple",
        rows(&t(clk(), &["CLK", "IN", "OUT"], vec![Stmt::Row(vec![Entry::C, e(0), e(0)])], vec![("OUT", SigBeh::Const(OutVal::Num(0)))])),
        vec![w(&[0, 0]), w(&[1, 0]), r(&[0, 0])],
        "end",
    );
    // X: leftmost varies fastest, 0 before 1 (repository test iter_with_x_works)
    check(
        "two X",
        rows(&t(
            vec![sig("A", 1, SigKind::In), sig("B", 1, SigKind::In), sig("OUT", 1, SigKind::Out)],
            &["A", "B", "OUT"],
            vec![Stmt::Row(vec![Entry::X, Entry::X, e(1)])],
            vec![("OUT", SigBeh::Const(OutVal::Num(0)))],
        )),
        vec![r(&[0, 0]), r(&[1, 0]), r(&[0, 1]), r(&[1, 1])],
        "end",
    );
    // X and C compose: one full triple per assignment (repository test iter_with_x_and_c_works)
    check(
        "X and C",
        rows(&t(clk(), &["CLK", "IN", "OUT"], vec![Stmt::Row(vec![Entry::C, Entry::X, e(0)])], vec![("OUT", SigBeh::Const(OutVal::Num(0)))])),
        vec![w(&[0, 0]), w(&[1, 0]), r(&[0, 0]), w(&[0, 1]), w(&[1, 1]), r(&[0, 1])],
        "end",
    );
    // expected X is never expanded
    check(
        "expected X not expanded",
        rows(&t(clk(), &["CLK", "IN", "OUT"], vec![Stmt::Row(vec![e(1), e(1), Entry::X])], vec![("OUT", SigBeh::Const(OutVal::Num(0)))])),
        vec![r(&[1, 1])],
        "end",
    );
    // reads see the latest output-reading answer; the constructor's before the first row;
    // mid-clock writes do not refresh
    {
        // Q counts calls: answer to call k is k
        let sigs = vec![sig("CLK", 1, SigKind::In), sig("A", 8, SigKind::In), sig("Q", 8, SigKind::Out)];
        check(
            "reads: latest reading call",
            rows(&t(sigs, &["CLK", "A", "Q"], vec![
                Stmt::Row(vec![e(0), ex(id("Q")), Entry::X]),      // call 1, evaluated against call 0 -> 0
                Stmt::Row(vec![Entry::C, ex(id("Q")), Entry::X]),  // calls 2,3,4, evaluated against call 1 -> 1 held
                Stmt::Row(vec![e(0), ex(id("Q")), Entry::X]),      // call 5, evaluated against call 4 -> 4
            ], vec![("Q", SigBeh::Counter(0, 1))])),
            vec![r(&[0, 0]), w(&[0, 1]), w(&[1, 1]), r(&[0, 1]), r(&[0, 4])],
            "end",
        );
    }
    // a variable of the same name takes precedence
    check(
        "variable shadows output",
        rows(&t(a8(), &["A", "Q"], vec![
            Stmt::Let("Q".into(), Expr::Num(77)),
            Stmt::Row(vec![ex(id("Q")), Entry::X]),
        ], vec![("Q", SigBeh::Const(OutVal::Num(3)))])),
        vec![r(&[77])],
        "end",
    );
    // Z read: the row being evaluated yields an error
    check(
        "Z read is an error item",
        rows(&t(a8(), &["A", "Q"], vec![
            Stmt::Row(vec![e(1), Entry::X]),
            Stmt::Row(vec![ex(id("Q")), Entry::X]),
        ], vec![("Q", SigBeh::Const(OutVal::Z))])),
        vec![r(&[1])],
        "err ZxRead",
    );
    // device-steered loop bound
    check(
        "device-steered bound",
        rows(&t(a8(), &["A", "Q"], vec![
            Stmt::Loop("i".into(), Expr::bin(BinOp::And, id("Q"), Expr::Num(3)), vec![Stmt::Row(vec![ex(id("i")), Entry::X])]),
        ], vec![("Q", SigBeh::Const(OutVal::Num(6)))])),
        vec![r(&[0]), r(&[1])],
        "end",
    );
    // while waiting for the device: left at the very next test once DONE is asserted
    check(
        "while(!(DONE))",
        rows(&t(a8(), &["A", "Q"], vec![
            Stmt::While(Expr::un(UnOp::Not, id("Q")), vec![Stmt::Row(vec![e(5), Entry::X])]),
            Stmt::Row(vec![e(6), Entry::X]),
        ], vec![("Q", SigBeh::DoneAfter(3))])),
        // answers: call0=0 call1=0 call2=0 call3=1 -> three iterations
        vec![r(&[5]), r(&[5]), r(&[5]), r(&[6])],
        "end",
    );
    // division by zero, unassigned variable, empty random range: error items
    check(
        "division by zero",
        rows(&t(a8(), &["A", "Q"], vec![
            Stmt::Row(vec![e(1), Entry::X]),
            Stmt::Let("a".into(), Expr::bin(BinOp::Div, Expr::Num(1), Expr::Num(0))),
            Stmt::Row(vec![e(2), Entry::X]),
        ], q0())),
        vec![r(&[1])],
        "err DivZero",
    );
    check(
        "unassigned variable",
        rows(&t(a8(), &["A", "Q"], vec![
            Stmt::While(Expr::Num(0), vec![Stmt::Let("h".into(), Expr::Num(1)), Stmt::Row(vec![e(1), Entry::X])]),
            Stmt::Row(vec![ex(id("h")), Entry::X]),
        ], q0())),
        vec![],
        "err Unassigned",
    );
    check(
        "empty random range",
        rows(&t(a8(), &["A", "Q"], vec![Stmt::Row(vec![ex(Expr::random(Expr::Num(0))), Entry::X])], q0())),
        vec![],
        "err EmptyRandom",
    );
    // random: the logged value is used as a literal
    {
        let mut tt = t(a8(), &["A", "Q"], vec![Stmt::Row(vec![ex(Expr::random(Expr::Num(10))), Entry::X])], q0());
        tt.draws = vec![Draw::Bound(10), Draw::Draw, Draw::Value(7)];
        check("random as literal", rows(&tt), vec![r(&[7])], "end");
    }
    // virtual signal: evaluated over the same row's answer, blind to variables; expected from
    // its column or X; 64 bits wide
    {
        let sigs = vec![sig("A", 8, SigKind::In), sig("Q", 8, SigKind::Out)];
        let tt = t(sigs, &["A", "Q", "V"], vec![
            Stmt::Declare("V".into(), Expr::bin(BinOp::Add, id("Q"), Expr::Num(1))),
            Stmt::Let("Q".into(), Expr::Num(1000)),
            Stmt::Row(vec![e(1), Entry::X, e(i64::MAX)]),
            Stmt::Row(vec![e(2), Entry::X, Entry::X]),
        ], vec![("Q", SigBeh::Counter(0, 1))]);
        let outs = expected_of(&tt);
        n += 1;
        let want = vec![
            vec![("Q".to_string(), ExpVal::X, OutVal::Num(1)), ("V".to_string(), ExpVal::Num(i64::MAX), OutVal::Num(2))],
            vec![("Q".to_string(), ExpVal::X, OutVal::Num(2)), ("V".to_string(), ExpVal::X, OutVal::Num(3))],
        ];
        if outs != want {
            failed += 1;
            println!("selftest FAILED: virtual signal\n   got  {outs:?}\n   want {want:?}");
        }
    }
    // outputs the driver never supplies are X; bidirectional expected from <name>_out
    {
        let sigs = vec![sig("IO", 4, SigKind::Bidir), sig("Q", 4, SigKind::Out), sig("R", 4, SigKind::Out)];
        let tt = t(sigs, &["IO", "IO_out", "R"], vec![Stmt::Row(vec![e(3), e(5), e(1)])], vec![("R", SigBeh::Const(OutVal::Num(1)))]);
        let outs = expected_of(&tt);
        n += 1;
        let want = vec![vec![
            ("IO".to_string(), ExpVal::Num(5), OutVal::X),
            ("Q".to_string(), ExpVal::X, OutVal::X),
            ("R".to_string(), ExpVal::Num(1), OutVal::Num(1)),
        ]];
        if outs != want {
            failed += 1;
            println!("selftest FAILED: missing outputs / bidirectional\n   got  {outs:?}\n   want {want:?}");
        }
    }
    // continue mode: after a checked row whose virtual signal could not be evaluated the run
    // goes on with the next statement; after any other error the reference stops
    {
        let sigs = vec![sig("A", 8, SigKind::In), sig("Q", 8, SigKind::Out)];
        let tt = t(sigs, &["A", "Q"], vec![
            Stmt::Declare("V".into(), Expr::bin(BinOp::Add, id("Q"), Expr::Num(1))),
            Stmt::Let("a".into(), Expr::Num(5)),
            Stmt::Row(vec![ex(id("a")), Entry::X]),
            Stmt::Row(vec![ex(Expr::bin(BinOp::Add, id("a"), Expr::Num(1))), Entry::X]),
            Stmt::Row(vec![ex(Expr::bin(BinOp::Add, id("a"), Expr::Num(2))), Entry::X]),
        ], vec![("Q", SigBeh::Script(vec![OutVal::Num(0), OutVal::Num(1), OutVal::Z, OutVal::Num(3)]))]);
        let virt = vec!["V".to_string()];
        let r = run_reference(&RefInput {
            signals: &tt.signals,
            program: &tt.program,
            dut: &tt.dut,
            draws: &[],
            max_steps: 100,
            virtual_order: &virt,
            continue_after_error: true,
        });
        let shape: Vec<String> = r
            .steps
            .iter()
            .map(|s| match &s.item {
                RefItem::Row { inputs, outputs } => format!(
                    "row {:?} V={:?}",
                    inputs,
                    outputs.iter().find(|o| o.0 == "V").map(|o| o.2)
                ),
                RefItem::RuntimeErr(c) => format!("err {c:?} continues={}", s.continues),
                RefItem::DriverErr(i) => format!("driver {i}"),
                RefItem::End => "end".into(),
            })
            .collect();
        n += 1;
        let want = vec![
            "row [Num(5)] V=Some(Num(2))".to_string(),
            "err ZxRead continues=true".to_string(),
            "row [Num(7)] V=Some(Num(4))".to_string(),
            "end".to_string(),
        ];
        if shape != want {
            failed += 1;
            println!("selftest FAILED: continue after failed virtual signal\n   got  {shape:?}\n   want {want:?}");
        }
    }
    // deliberately unspecified things stop the comparison, they are never judged
    {
        let tt = t(a8(), &["A", "Q"], vec![
            Stmt::Loop("i".into(), Expr::Num(3), vec![
                Stmt::Row(vec![ex(id("i")), Entry::X]),
                Stmt::Let("i".into(), Expr::Num(7)),
            ]),
        ], q0());
        let got = rows(&tt);
        n += 1;
        if got.0 != vec![r(&[0])] || !got.1.starts_with("unspecified") {
            failed += 1;
            println!("selftest FAILED: counter rebinding must be flagged unspecified: {got:?}");
        }
        let tt = t(a8(), &["A", "Q"], vec![Stmt::Row(vec![ex(Expr::random(Expr::Num(1))), Entry::X])], q0());
        let got = rows(&tt);
        n += 1;
        if !got.0.is_empty() || !got.1.starts_with("unspecified") {
            failed += 1;
            println!("selftest FAILED: random(1) must be flagged unspecified: {got:?}");
        }
    }
    if failed == 0 {
        println!("selftest OK: {n} golden cases");
        0
    } else {
        println!("selftest: {failed} of {n} golden cases FAILED");
        2
    }
}
