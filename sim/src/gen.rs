//! Seeded workload generator: configuration (signal list, header), program (model AST), DUT
//! (layout, behaviours, fault plan) and caller schedule, all drawn from one PRNG stream in a
//! fixed order. Validity and termination are by construction (DESIGN.md §2.4).

use crate::case::{Action, Case};
use crate::dut::{DutSpec, Fault, FaultKind, SigBeh, TableW};
use crate::model::*;
use crate::rng::Rng;

/// magnitude bound (|v| < 2^mag) that every variable obeys outside the wild family
const VAR_MAG: u32 = 20;
const MAX_MAG: u32 = 62;

#[derive(Clone, Debug)]
pub struct Knobs {
    // ---- configuration
    pub n_in: (u32, u32),
    pub n_out: (u32, u32),
    pub n_bidir: (u32, u32),
    pub n_virtual: (u32, u32),
    pub widths: Vec<u32>,
    /// interleave inputs / outputs / bidirectional signals in the signal list
    pub shuffle_signals: bool,
    /// header in any order and any subset
    pub header_swarm: bool,
    /// some never-read signals get names that are not identifiers
    pub exotic_names: bool,
    pub z_defaults: bool,
    /// inputs wide enough to carry tagged values unreduced
    pub probe_inputs: bool,
    // ---- program shape
    pub max_depth: u32,
    pub block_len: (u32, u32),
    pub w_row: u32,
    pub w_let: u32,
    pub w_loop: u32,
    pub w_repeat: u32,
    pub w_while: u32,
    pub w_reset: u32,
    pub max_rows: usize,
    // loop bounds
    pub w_bound_const: u32,
    pub w_bound_zero: u32,
    pub w_bound_neg: u32,
    pub w_bound_expr: u32,
    pub max_loop: i64,
    // while forms
    pub w_while_counter: u32,
    pub w_while_done: u32,
    pub w_while_zero: u32,
    // ---- row entries (input columns)
    pub w_in_lit: u32,
    pub w_in_expr: u32,
    pub w_in_bits: u32,
    pub w_in_x: u32,
    pub w_in_c: u32,
    pub w_in_z: u32,
    pub max_x: u32,
    pub max_c: u32,
    /// identity reads `(Q)` under probe inputs
    pub w_in_identity: u32,
    // ---- row entries (expected columns)
    pub w_exp_lit: u32,
    pub w_exp_expr: u32,
    pub w_exp_x: u32,
    pub w_exp_z: u32,
    pub w_exp_bits: u32,
    // ---- expressions
    pub expr_depth: u32,
    /// weight of a device read among expression leaves (0 = never)
    pub w_leaf_read: u32,
    pub w_leaf_var: u32,
    pub w_leaf_lit: u32,
    pub use_ite: bool,
    pub random: bool,
    pub sign_ext: bool,
    /// `let Q = ...;` at top level where Q is a device output
    pub shadow_outputs: bool,
    /// a `let <output name>` inside a `while` body that never runs, ahead of the program:
    /// the name then is lexically a variable but denotes the output at run time
    pub ghost_let: bool,
    /// chance (in percent) that the program ends with a top-level `while` whose condition is
    /// a draw: `while((random(3) - 1)) <row> end while`
    pub trailing_random_while_pct: u32,
    /// repeat a bare `random(n)` entry in the next input column of the same row
    pub dup_random_entry: bool,
    /// percentage of declares whose expression fails without reading an output
    pub virtual_const_fail_pct: u32,
    /// liberal arithmetic on boundary values, shifts by anything, division by anything
    pub wild: bool,
    /// plant one named hazard (division by zero, unassigned variable, empty random range)
    pub named_hazard: bool,
    // ---- DUT
    pub w_beh_tagged: u32,
    pub w_beh_table: u32,
    pub w_beh_counter: u32,
    pub w_beh_echo: u32,
    pub w_beh_const: u32,
    pub table: TableW,
    /// 0: full layout in signal order, 1: permuted, 2: subset + permuted, 3: empty
    pub w_layout: [u32; 4],
    /// allow the layout to omit an output the program reads (constructor must refuse)
    pub layout_may_miss_read: bool,
    /// probability (percent) that the DUT overrides `write_input`
    pub override_pct: u32,
    /// probability (percent) of one injected driver error
    pub driver_error_pct: u32,
    /// probability (percent) of a Z/X/boundary value override on some answer
    pub value_fault_pct: u32,
    // ---- schedule
    /// percent of runs that stop at a prefix
    pub stop_early_pct: u32,
    /// percent of runs that call next() again after None
    pub after_none_pct: u32,
    /// percent of runs that inspect vars()
    pub inspect_pct: u32,
    /// percent of runs in which the caller keeps iterating after error items
    pub continue_pct: u32,
    /// (with a continuing caller) plant statements that fail at run time: `let zz = (7 / 0);`
    /// and rows with such an entry, also inside loops
    pub failing_stmt_pct: u32,
    /// scale swarm: 0 = ordinary sizes; 1 = hundreds of outputs (257, 300: past u8 indices),
    /// 2 = dozens of inputs (33, 40, 70: past 32-bit masks), 3 = many input X in one row (up to
    /// 10: 1024 expansions), 4 = loop bounds of 2^32 and more, 5 = nesting depth 6-7
    pub scale: u8,
    pub max_steps: usize,
}

impl Knobs {
    pub fn base() -> Knobs {
        Knobs {
            n_in: (1, 3),
            n_out: (1, 3),
            n_bidir: (0, 1),
            n_virtual: (0, 0),
            widths: vec![1, 1, 2, 4, 8, 16, 32, 62],
            shuffle_signals: true,
            header_swarm: true,
            exotic_names: true,
            z_defaults: true,
            probe_inputs: false,
            max_depth: 3,
            block_len: (1, 4),
            w_row: 10,
            w_let: 4,
            w_loop: 3,
            w_repeat: 1,
            w_while: 2,
            w_reset: 0,
            max_rows: 200,
            w_bound_const: 6,
            w_bound_zero: 1,
            w_bound_neg: 1,
            w_bound_expr: 3,
            max_loop: 4,
            w_while_counter: 3,
            w_while_done: 2,
            w_while_zero: 1,
            w_in_lit: 8,
            w_in_expr: 4,
            w_in_bits: 1,
            w_in_x: 1,
            w_in_c: 1,
            w_in_z: 1,
            max_x: 3,
            max_c: 2,
            w_in_identity: 0,
            w_exp_lit: 5,
            w_exp_expr: 2,
            w_exp_x: 3,
            w_exp_z: 1,
            w_exp_bits: 1,
            expr_depth: 3,
            w_leaf_read: 3,
            w_leaf_var: 4,
            w_leaf_lit: 4,
            use_ite: true,
            random: false,
            sign_ext: false,
            shadow_outputs: false,
            ghost_let: false,
            trailing_random_while_pct: 0,
            dup_random_entry: false,
            virtual_const_fail_pct: 0,
            wild: false,
            named_hazard: false,
            w_beh_tagged: 2,
            w_beh_table: 4,
            w_beh_counter: 2,
            w_beh_echo: 1,
            w_beh_const: 1,
            table: TableW {
                small: 6,
                byte: 3,
                fit: 1,
                boundary: 0,
                z: 0,
                x: 0,
            },
            w_layout: [3, 3, 3, 0],
            layout_may_miss_read: false,
            override_pct: 50,
            driver_error_pct: 0,
            value_fault_pct: 0,
            stop_early_pct: 0,
            after_none_pct: 0,
            inspect_pct: 0,
            continue_pct: 0,
            failing_stmt_pct: 0,
            scale: 0,
            max_steps: 256,
        }
    }

    /// swarm: switch some features off entirely for this run
    pub fn swarm(&mut self, rng: &mut Rng) {
        let mut off = |w: &mut u32, pct: u64| {
            if rng.chance(pct, 100) {
                *w = 0;
            }
        };
        off(&mut self.w_let, 15);
        off(&mut self.w_loop, 20);
        off(&mut self.w_repeat, 40);
        off(&mut self.w_while, 30);
        off(&mut self.w_in_bits, 50);
        off(&mut self.w_in_x, 40);
        off(&mut self.w_in_c, 40);
        off(&mut self.w_in_z, 50);
        off(&mut self.w_exp_bits, 50);
        off(&mut self.w_exp_z, 40);
        off(&mut self.w_leaf_read, 15);
        off(&mut self.w_bound_zero, 30);
        off(&mut self.w_bound_neg, 30);
        if rng.chance(1, 4) {
            self.max_depth = self.max_depth.min(1 + rng.below(2) as u32);
        }
        if rng.chance(1, 3) {
            self.use_ite = false;
        }
    }
}


#[derive(Clone, Debug)]
struct VarInfo {
    name: String,
    /// assigned on every path that reaches the current point
    definite: bool,
    /// code that binds into the same frame must not rebind it (loop / while counters)
    reserved: bool,
    mag: u32,
}

#[derive(Clone, Debug)]
struct OutInfo {
    name: String,
    mag: u32,
    bits: u32,
}

#[derive(Clone, Copy, Debug, PartialEq, Eq)]
enum Col {
    /// input column of signal index
    In(usize),
    /// expected column of signal index (device output or `_out` half)
    Exp(usize),
    /// expected column of a virtual signal
    Virt,
}

#[derive(Clone, Copy, Debug)]
struct Cx {
    read: bool,
    var: bool,
    random: bool,
}

pub struct Gen<'k> {
    pub rng: Rng,
    k: &'k Knobs,
    pub signals: Vec<SigSpec>,
    pub header: Vec<String>,
    cols: Vec<Col>,
    /// device outputs that expressions may read (identifier names, supplied by the DUT)
    readable: Vec<OutInfo>,
    scopes: Vec<Vec<VarInfo>>,
    loop_depth: u32,
    while_depth: u32,
    virtual_names: Vec<String>,
    done_sig: Option<String>,
    hazard_var: Option<String>,
    hazard_done: bool,
    randoms_in_stmt: u32,
    /// this run's pool of variable names
    var_pool: [&'static str; 8],
    pub dut: Option<DutSpec>,
}

const IN_NAMES: [&str; 8] = ["A", "B", "CLK", "D", "EN", "SEL", "P", "RST"];
const OUT_NAMES: [&str; 8] = ["Q", "R", "S", "T", "Y", "OUT", "F", "G"];
const BIDIR_NAMES: [&str; 3] = ["IO", "BD", "BUS"];
const VIRT_NAMES: [&str; 6] = ["V", "W", "VV", "U", "V2", "W2"];
// second naming scheme: names that are prefixes of one another (binding is by exact name)
const IN_NAMES_P: [&str; 8] = ["D", "D1", "D10", "DA", "D_", "DD", "D1A", "D2"];
const OUT_NAMES_P: [&str; 8] = ["Q", "V_out", "Q10", "IO_x_out", "Q_", "V1_out", "Q1A", "Q2"];
const BIDIR_NAMES_P: [&str; 3] = ["IO1", "IO", "IO10"];
const VIRT_NAMES_P: [&str; 6] = ["V", "V1", "V10", "VV", "V_", "V1A"];
// third naming scheme: names that differ only in capitalisation (names are case-sensitive)
const IN_NAMES_C: [&str; 8] = ["D", "d", "Clk", "CLK", "clk", "En", "EN", "en"];
const OUT_NAMES_C: [&str; 8] = ["Q", "q", "Out", "OUT", "out", "Qq", "QQ", "qq"];
const BIDIR_NAMES_C: [&str; 3] = ["IO", "io", "Io"];
const VIRT_NAMES_C: [&str; 6] = ["V", "v", "Vv", "VV", "vv", "vV"];
const EXOTIC: [&str; 6] = ["A-1", "~RST", "B[0]", "9", "ALU-~OE", "x.y"];
const VARS: [&str; 8] = ["a", "b", "i", "j", "k", "m", "n", "t"];
// legal identifiers that look like the row markers (in a row `X` `C` `Z` are markers whatever
// variables exist; inside an expression they are ordinary names)
const MARKER_VARS: [&str; 8] = ["a", "X", "i", "C", "k", "Z", "n", "x"];

fn bits_for(n: u64) -> u32 {
    64 - n.leading_zeros()
}

fn is_ident(s: &str) -> bool {
    let mut chars = s.chars();
    match chars.next() {
        Some(c) if c.is_ascii_alphabetic() || c == '_' => {}
        _ => return false,
    }
    chars.all(|c| c.is_ascii_alphanumeric() || c == '_')
}

impl<'k> Gen<'k> {
    pub fn new(rng: Rng, k: &'k Knobs) -> Gen<'k> {
        Gen {
            rng,
            k,
            signals: vec![],
            header: vec![],
            cols: vec![],
            readable: vec![],
            scopes: vec![vec![]],
            loop_depth: 0,
            while_depth: 0,
            virtual_names: vec![],
            done_sig: None,
            hazard_var: None,
            hazard_done: false,
            randoms_in_stmt: 0,
            var_pool: VARS,
            dut: None,
        }
    }

    fn between(&mut self, (lo, hi): (u32, u32)) -> u32 {
        lo + self.rng.below((hi - lo + 1) as u64) as u32
    }

    // -----------------------------------------------------------------------------------
    // configuration

    pub fn gen_config(&mut self) {
        let mut n_in = self.between(self.k.n_in);
        let mut n_out = self.between(self.k.n_out);
        let n_bidir = self.between(self.k.n_bidir);
        let mut numbered = false;
        match self.k.scale {
            1 => {
                n_out = *self.rng.pick(&[40u32, 257, 258, 300]);
                numbered = true;
            }
            2 => {
                n_in = *self.rng.pick(&[33u32, 34, 40, 70]);
                numbered = true;
            }
            3 => {
                n_in = 10 + self.rng.below(3) as u32;
                numbered = true;
            }
            _ => {}
        }
        let mut sigs = vec![];
        let mut exotic_left: Vec<&str> = EXOTIC.to_vec();
        self.rng.shuffle(&mut exotic_left);
        if self.rng.chance(1, 12) {
            self.var_pool = MARKER_VARS;
        }
        let (in_names, out_names, bidir_names, virt_names) = match self.rng.below(8) {
            0 | 1 => (IN_NAMES_P, OUT_NAMES_P, BIDIR_NAMES_P, VIRT_NAMES_P),
            2 => (IN_NAMES_C, OUT_NAMES_C, BIDIR_NAMES_C, VIRT_NAMES_C),
            _ => (IN_NAMES, OUT_NAMES, BIDIR_NAMES, VIRT_NAMES),
        };
        for i in 0..n_in {
            let bits = if self.k.probe_inputs && i == 0 {
                62
            } else {
                *self.rng.pick(&self.k.widths)
            };
            let name = if numbered {
                format!("I{i}")
            } else if self.k.exotic_names && i > 0 && self.rng.chance(1, 8) && !exotic_left.is_empty() {
                exotic_left.pop().unwrap().to_string()
            } else {
                in_names[i as usize].to_string()
            };
            let default = self.gen_default(bits);
            sigs.push(SigSpec {
                name,
                bits,
                kind: SigKind::In,
                default,
            });
        }
        let output_n = self.k.shadow_outputs && self.rng.chance(1, 12);
        for i in 0..n_out {
            let bits = *self.rng.pick(&self.k.widths);
            let name = if numbered {
                format!("O{i}")
            } else if output_n && i == 0 {
                "n".to_string()
            } else if self.k.exotic_names && i > 1 && self.rng.chance(1, 8) && !exotic_left.is_empty() {
                exotic_left.pop().unwrap().to_string()
            } else {
                out_names[i as usize].to_string()
            };
            sigs.push(SigSpec {
                name,
                bits,
                kind: SigKind::Out,
                default: InVal::Num(0),
            });
        }
        for i in 0..n_bidir {
            let bits = *self.rng.pick(&self.k.widths);
            let default = self.gen_default(bits);
            sigs.push(SigSpec {
                name: bidir_names[i as usize].to_string(),
                bits,
                kind: SigKind::Bidir,
                default,
            });
        }
        if sigs.is_empty() {
            sigs.push(SigSpec {
                name: "A".into(),
                bits: 1,
                kind: SigKind::In,
                default: InVal::Num(0),
            });
        }
        if self.k.shuffle_signals && self.rng.chance(3, 4) {
            self.rng.shuffle(&mut sigs);
        }
        self.signals = sigs;

        let nv = self.between(self.k.n_virtual);
        self.virtual_names = virt_names[..nv as usize]
            .iter()
            .map(|s| s.to_string())
            .collect();

        // header: columns for a subset of the signals, in any order
        let mut cols: Vec<(String, Col)> = vec![];
        for (i, s) in self.signals.iter().enumerate() {
            match s.kind {
                SigKind::In => cols.push((s.name.clone(), Col::In(i))),
                SigKind::Out => cols.push((s.name.clone(), Col::Exp(i))),
                SigKind::Bidir => {
                    cols.push((s.name.clone(), Col::In(i)));
                    cols.push((format!("{}_out", s.name), Col::Exp(i)));
                }
            }
        }
        for v in &self.virtual_names {
            cols.push((v.clone(), Col::Virt));
        }
        if matches!(self.k.scale, 1 | 2) && cols.len() > 12 {
            // hundreds of signals: a header of a dozen columns that reaches the far end of
            // the signal list
            let last = cols.len() - 1;
            let mut keep: Vec<usize> = vec![0, last, last - 1, 255.min(last), 256.min(last), 32.min(last), 31.min(last)];
            for _ in 0..5 {
                keep.push(self.rng.usize(cols.len()));
            }
            keep.sort();
            keep.dedup();
            cols = keep.into_iter().map(|i| cols[i].clone()).collect();
        }
        if self.k.header_swarm {
            if self.rng.chance(2, 3) {
                self.rng.shuffle(&mut cols);
            }
            if self.rng.chance(1, 2) {
                let mut kept = vec![];
                for c in cols.drain(..) {
                    if self.rng.chance(3, 4) {
                        kept.push(c);
                    }
                }
                cols = kept;
            }
        }
        if cols.is_empty() {
            let s = &self.signals[0];
            let col = if s.is_input() { Col::In(0) } else { Col::Exp(0) };
            cols.push((s.name.clone(), col));
        }
        self.header = cols.iter().map(|c| c.0.clone()).collect();
        self.cols = cols.iter().map(|c| c.1).collect();
    }

    fn gen_default(&mut self, bits: u32) -> InVal {
        if self.k.z_defaults && self.rng.chance(1, 6) {
            InVal::Z
        } else if self.rng.chance(1, 2) {
            InVal::Num(0)
        } else if self.rng.chance(1, 8) {
            // a default that does not fit the width: it is the signal's default as it stands
            *self.rng.pick(&[
                InVal::Num(-1),
                InVal::Num((1i64 << bits.min(40)) + 1),
                InVal::Num(-(1i64 << bits.min(40))),
                InVal::Num(255),
            ])
        } else {
            InVal::Num(self.rng.below(1u64 << bits.min(6)) as i64)
        }
    }

    // -----------------------------------------------------------------------------------
    // DUT (before the program, so that magnitudes of device reads are known)

    fn gen_beh(&mut self, sig: &SigSpec) -> (SigBeh, u32) {
        let k = self.k;
        let w = [
            k.w_beh_tagged,
            k.w_beh_table,
            k.w_beh_counter,
            k.w_beh_echo,
            k.w_beh_const,
        ];
        match self.rng.weighted(&w) {
            0 => (SigBeh::Tagged, 44),
            1 => {
                let t = k.table.clone();
                let mut mag = 2;
                if t.byte > 0 {
                    mag = 8;
                }
                if t.fit > 0 {
                    mag = mag.max(sig.bits.min(62));
                }
                if t.boundary > 0 {
                    mag = 64;
                }
                (SigBeh::Table(t), mag)
            }
            2 => {
                // (with variables named like outputs around, counters that move in step with a
                // loop counter: small start, step 1)
                let (start, step) = if k.shadow_outputs && self.rng.chance(1, 2) {
                    (self.rng.range(-3, 3), 1)
                } else {
                    (self.rng.range(0, 20), self.rng.range(1, 5))
                };
                (SigBeh::Counter(start, step), 24)
            }
            3 => {
                let m = *self.rng.pick(&[2u32, 4, 16, 256]);
                (SigBeh::Echo(m), bits_for(m as u64))
            }
            _ => {
                let v = self.rng.below(4) as i64;
                (SigBeh::Const(OutVal::Num(v)), 2)
            }
        }
    }

    pub fn gen_dut(&mut self, want_done: bool) {
        let outs: Vec<SigSpec> = self
            .signals
            .iter()
            .filter(|s| s.is_output())
            .cloned()
            .collect();
        let mode = self.rng.weighted(&self.k.w_layout);
        let mut layout: Vec<SigSpec> = outs;
        match mode {
            0 => {}
            1 => self.rng.shuffle(&mut layout),
            2 => {
                self.rng.shuffle(&mut layout);
                let keep = self.rng.usize(layout.len() + 1);
                layout.truncate(keep);
            }
            _ => layout.clear(),
        }
        let mut entries = vec![];
        let mut readable = vec![];
        for s in layout.iter() {
            let (beh, mag) =
                if want_done && self.done_sig.is_none() && is_ident(&s.name) && s.bits >= 1 {
                    self.done_sig = Some(s.name.clone());
                    let t = 1 + self.rng.below(10);
                    (SigBeh::DoneAfter(t), 1)
                } else {
                    self.gen_beh(s)
                };
            if is_ident(&s.name) {
                readable.push(OutInfo {
                    name: s.name.clone(),
                    mag,
                    bits: s.bits,
                });
            }
            entries.push((s.clone(), beh));
        }
        self.readable = readable;
        let seed = self.rng.next_u64();
        let overrides_write = self.rng.chance(self.k.override_pct as u64, 100);
        self.dut = Some(DutSpec {
            layout: entries,
            seed,
            overrides_write,
            in_place: false,
            alternate_memory: false,
            hold: 1,
            faults: vec![],
        });
    }

    // -----------------------------------------------------------------------------------
    // scopes

    fn lookup(&self, name: &str) -> Option<&VarInfo> {
        self.scopes
            .iter()
            .rev()
            .find_map(|s| s.iter().find(|v| v.name == name))
    }

    fn definite_vars(&self) -> Vec<VarInfo> {
        let mut seen: Vec<String> = vec![];
        let mut out = vec![];
        for s in self.scopes.iter().rev() {
            for v in s.iter() {
                if !seen.contains(&v.name) {
                    seen.push(v.name.clone());
                    if v.definite {
                        out.push(v.clone());
                    }
                }
            }
        }
        out
    }

    /// may `let name` be emitted here? (it would land in the innermost frame)
    fn can_bind(&self, name: &str) -> bool {
        !self
            .scopes
            .last()
            .unwrap()
            .iter()
            .any(|v| v.name == name && v.reserved)
    }

    fn bind(&mut self, name: &str, mag: u32, reserved: bool) {
        let top = self.scopes.last_mut().unwrap();
        if let Some(v) = top.iter_mut().find(|v| v.name == name) {
            v.mag = v.mag.max(mag);
            v.reserved |= reserved;
            v.definite = true;
        } else {
            top.push(VarInfo {
                name: name.to_string(),
                definite: true,
                reserved,
                mag,
            });
        }
    }

    fn is_output_name(&self, name: &str) -> bool {
        self.signals.iter().any(|s| s.name == name) || self.virtual_names.iter().any(|v| v == name)
    }

    // -----------------------------------------------------------------------------------
    // expressions

    fn small_lit(&mut self) -> i64 {
        match self.rng.below(10) {
            0..=5 => self.rng.range(0, 4),
            6..=7 => self.rng.range(0, 16),
            8 => self.rng.range(0, 255),
            _ => self.rng.range(0, 1000),
        }
    }

    fn wild_lit(&mut self) -> Expr {
        let opts = [
            0,
            1,
            2,
            -1,
            -2,
            63,
            64,
            65,
            i64::MAX,
            i64::MIN,
            i64::MIN + 1,
            i64::MAX - 1,
            1 << 62,
            1 << 32,
            -(1 << 31),
            255,
        ];
        if self.rng.chance(1, 3) {
            Expr::num(self.small_lit())
        } else {
            Expr::num(*self.rng.pick(&opts))
        }
    }

    fn gen_leaf(&mut self, cx: Cx) -> (Expr, u32) {
        let k = self.k;
        let vars = if cx.var { self.definite_vars() } else { vec![] };
        let reads: Vec<OutInfo> = if cx.read {
            self.readable
                .iter()
                .filter(|o| self.lookup(&o.name).is_none())
                .cloned()
                .collect()
        } else {
            vec![]
        };
        let w = [
            k.w_leaf_lit,
            if vars.is_empty() { 0 } else { k.w_leaf_var },
            if reads.is_empty() { 0 } else { k.w_leaf_read },
        ];
        match self.rng.weighted(&w) {
            0 => {
                if k.wild {
                    (self.wild_lit(), 64)
                } else {
                    let n = self.small_lit();
                    (Expr::Num(n), bits_for(n as u64))
                }
            }
            1 => {
                let v = self.rng.pick(&vars).clone();
                (Expr::Id(v.name), v.mag)
            }
            _ => {
                let o = self.rng.pick(&reads).clone();
                (Expr::Id(o.name), o.mag)
            }
        }
    }

    /// returns an expression and a bound `mag` with value in [-2^mag, 2^mag)
    fn gen_expr(&mut self, depth: u32, cx: Cx) -> (Expr, u32) {
        if depth == 0 || self.rng.chance(1, 4) {
            return self.gen_leaf(cx);
        }
        if self.k.wild {
            return self.gen_expr_wild(depth, cx);
        }
        let choice = self.rng.below(20);
        match choice {
            0..=9 => {
                // binary operator
                let (l, lm) = self.gen_expr(depth - 1, cx);
                let op = *self.rng.pick(&ALL_BINOPS);
                match op {
                    BinOp::Shl | BinOp::Shr => {
                        let s = self.rng.range(0, 8);
                        let (l, lm) = self.fit(l, lm, MAX_MAG - 8);
                        let mag = if op == BinOp::Shl { lm + s as u32 } else { lm };
                        (Expr::bin(op, l, Expr::Num(s)), mag)
                    }
                    BinOp::Div | BinOp::Rem => {
                        let d = self.rng.range(1, 9);
                        (Expr::bin(op, l, Expr::Num(d)), lm)
                    }
                    BinOp::Mul => {
                        let (r, rm) = self.gen_expr(depth - 1, cx);
                        let (l, lm) = self.fit(l, lm, 30);
                        let (r, rm) = self.fit(r, rm, 30);
                        (Expr::bin(op, l, r), lm + rm)
                    }
                    BinOp::Add | BinOp::Sub => {
                        let (r, rm) = self.gen_expr(depth - 1, cx);
                        let (l, lm) = self.fit(l, lm, MAX_MAG - 1);
                        let (r, rm) = self.fit(r, rm, MAX_MAG - 1);
                        (Expr::bin(op, l, r), lm.max(rm) + 1)
                    }
                    BinOp::And | BinOp::Or | BinOp::Xor => {
                        let (r, rm) = self.gen_expr(depth - 1, cx);
                        (Expr::bin(op, l, r), lm.max(rm))
                    }
                    _ => {
                        let (r, _) = self.gen_expr(depth - 1, cx);
                        (Expr::bin(op, l, r), 1)
                    }
                }
            }
            10..=12 => {
                let (e, m) = self.gen_expr(depth - 1, cx);
                match self.rng.below(3) {
                    0 => {
                        let (e, m) = self.fit(e, m, MAX_MAG - 1);
                        (Expr::un(UnOp::Neg, e), m + 1)
                    }
                    1 => (Expr::un(UnOp::Not, e), 1),
                    _ => (Expr::un(UnOp::Inv, e), m),
                }
            }
            13..=14 if self.k.use_ite => {
                let (c, _) = self.gen_expr(depth - 1, cx);
                let (a, am) = self.gen_expr(depth - 1, cx);
                let (b, bm) = self.gen_expr(depth - 1, cx);
                (Expr::ite(c, a, b), am.max(bm))
            }
            15..=16 if cx.random && self.k.random && self.randoms_in_stmt == 0 => {
                self.randoms_in_stmt += 1;
                let cx2 = Cx {
                    random: false,
                    ..cx
                };
                self.gen_random(depth - 1, cx2)
            }
            _ => {
                // masked sub-expression: keeps values small
                let (e, _) = self.gen_expr(depth - 1, cx);
                let bits = *self.rng.pick(&[1u32, 2, 4, 8]);
                (
                    Expr::bin(BinOp::And, e, Expr::Num((1i64 << bits) - 1)),
                    bits,
                )
            }
        }
    }

    /// `random(bound)` with 2 <= bound <= 2^62
    fn gen_random(&mut self, depth: u32, cx: Cx) -> (Expr, u32) {
        match self.rng.below(6) {
            0 => (Expr::random(Expr::Num(2)), 1),
            1 => {
                let b = self.rng.range(2, 10);
                (Expr::random(Expr::Num(b)), bits_for(b as u64))
            }
            2 => {
                let b = self.rng.range(2, 100000);
                (Expr::random(Expr::Num(b)), bits_for(b as u64))
            }
            3 => {
                let s = self.rng.range(31, 62);
                (Expr::random(Expr::Num(1i64 << s)), s as u32)
            }
            _ => {
                // the bound is itself computed; sometimes from another draw (nested random:
                // ordered by data dependency, so the order of the two draws is defined)
                let (e, _) = if self.rng.chance(1, 3) {
                    let k = self.rng.range(2, 300);
                    (Expr::random(Expr::Num(k)), 9)
                } else {
                    self.gen_expr(depth, cx)
                };
                let bits = *self.rng.pick(&[1u32, 2, 4, 8]);
                let b = Expr::bin(
                    BinOp::Add,
                    Expr::bin(BinOp::And, e, Expr::Num((1i64 << bits) - 1)),
                    Expr::Num(2),
                );
                (Expr::random(b), bits + 1)
            }
        }
    }

    /// make sure the value fits in `limit` bits, masking if it might not
    fn fit(&mut self, e: Expr, mag: u32, limit: u32) -> (Expr, u32) {
        if mag <= limit {
            (e, mag)
        } else {
            let bits = *self.rng.pick(&[4u32, 8, 16]);
            (
                Expr::bin(BinOp::And, e, Expr::Num((1i64 << bits) - 1)),
                bits,
            )
        }
    }

    fn gen_expr_wild(&mut self, depth: u32, cx: Cx) -> (Expr, u32) {
        match self.rng.below(20) {
            0..=11 => {
                let (l, _) = self.gen_expr(depth - 1, cx);
                let (r, _) = self.gen_expr(depth - 1, cx);
                let op = *self.rng.pick(&ALL_BINOPS);
                (Expr::bin(op, l, r), 64)
            }
            12..=14 => {
                let (e, _) = self.gen_expr(depth - 1, cx);
                let op = *self.rng.pick(&[UnOp::Neg, UnOp::Not, UnOp::Inv]);
                (Expr::un(op, e), 64)
            }
            15..=16 => {
                let (c, _) = self.gen_expr(depth - 1, cx);
                let (a, _) = self.gen_expr(depth - 1, cx);
                let (b, _) = self.gen_expr(depth - 1, cx);
                (Expr::ite(c, a, b), 64)
            }
            17 if self.k.random => {
                let (e, _) = self.gen_expr(depth - 1, cx);
                (Expr::random(e), 64)
            }
            18 if self.k.sign_ext => {
                let (a, _) = self.gen_expr(depth - 1, cx);
                let (b, _) = self.gen_expr(depth - 1, cx);
                (Expr::SignExt(Box::new(a), Box::new(b)), 64)
            }
            _ => self.gen_leaf(cx),
        }
    }

    fn cx(&self) -> Cx {
        Cx {
            read: self.k.w_leaf_read > 0,
            var: true,
            random: self.k.random,
        }
    }

    // -----------------------------------------------------------------------------------
    // rows

    /// returns the entries and the number of rows the source row expands into
    fn gen_row(&mut self, budget: usize) -> (Vec<Entry>, usize) {
        let k = self.k;
        let mut entries = vec![];
        let mut nx = 0u32;
        let mut nc = 0u32;
        let mut col = 0;
        let ncols = self.cols.len();
        // how many expansions can we afford?
        let mut afford = budget.max(1);
        self.randoms_in_stmt = 0;
        while col < ncols {
            let kind = self.cols[col];
            let remaining = ncols - col;
            match kind {
                Col::In(si) => {
                    let bits = self.signals[si].bits;
                    let can_x = nx < k.max_x && afford >= 2 * if nc > 0 { 1 } else { 1 };
                    let can_c = nc < k.max_c && (nc > 0 || afford >= 3);
                    let identity = bits >= 60 && k.w_in_identity > 0 && !self.readable.is_empty();
                    let w = [
                        k.w_in_lit,
                        k.w_in_expr,
                        k.w_in_bits,
                        if can_x { k.w_in_x } else { 0 },
                        if can_c { k.w_in_c } else { 0 },
                        k.w_in_z,
                        if identity { k.w_in_identity } else { 0 },
                    ];
                    match self.rng.weighted(&w) {
                        0 => {
                            let v = if self.rng.chance(1, 10) {
                                // deliberately wider than the signal
                                self.rng.below(1 << 20) as i64
                            } else {
                                self.rng.below(1u64 << bits.min(8)) as i64
                            };
                            entries.push(Entry::Num(v));
                            col += 1;
                        }
                        1 => {
                            let dup = match entries.last() {
                                Some(Entry::Expr(Expr::Random(b)))
                                    if k.dup_random_entry && matches!(**b, Expr::Num(_)) =>
                                {
                                    Some(entries.last().unwrap().clone())
                                }
                                _ => None,
                            };
                            if let (Some(d), true) = (dup, self.rng.chance(1, 2)) {
                                entries.push(d);
                                col += 1;
                                continue;
                            }
                            let cx = self.cx();
                            let (e, _) = self.gen_expr(k.expr_depth, cx);
                            entries.push(Entry::Expr(e));
                            col += 1;
                        }
                        2 => {
                            let w = self.bits_run(col, remaining);
                            let cx = self.cx();
                            let (e, _) = self.gen_expr(k.expr_depth.min(2), cx);
                            entries.push(Entry::Bits(w as u8, e));
                            col += w;
                        }
                        3 => {
                            nx += 1;
                            afford /= 2;
                            entries.push(Entry::X);
                            col += 1;
                        }
                        4 => {
                            if nc == 0 {
                                afford /= 3;
                            }
                            nc += 1;
                            entries.push(Entry::C);
                            col += 1;
                        }
                        5 => {
                            entries.push(Entry::Z);
                            col += 1;
                        }
                        _ => {
                            let reads: Vec<OutInfo> = self
                                .readable
                                .iter()
                                .filter(|o| self.lookup(&o.name).is_none())
                                .cloned()
                                .collect();
                            if reads.is_empty() {
                                entries.push(Entry::Num(0));
                            } else {
                                let o = self.rng.pick(&reads).clone();
                                entries.push(Entry::Expr(Expr::Id(o.name)));
                            }
                            col += 1;
                        }
                    }
                }
                Col::Exp(_) | Col::Virt => {
                    let w = [k.w_exp_lit, k.w_exp_expr, k.w_exp_x, k.w_exp_z, k.w_exp_bits];
                    match self.rng.weighted(&w) {
                        0 => {
                            let v = match kind {
                                Col::Exp(si) => {
                                    let bits = self.signals[si].bits;
                                    self.rng.below(1u64 << bits.min(3)) as i64
                                }
                                _ => {
                                    if self.rng.chance(1, 4) {
                                        i64::MAX - self.rng.below(3) as i64
                                    } else {
                                        self.small_lit()
                                    }
                                }
                            };
                            entries.push(Entry::Num(v));
                            col += 1;
                        }
                        1 => {
                            let cx = self.cx();
                            let (e, _) = self.gen_expr(k.expr_depth, cx);
                            entries.push(Entry::Expr(e));
                            col += 1;
                        }
                        2 => {
                            entries.push(Entry::X);
                            col += 1;
                        }
                        3 => {
                            entries.push(Entry::Z);
                            col += 1;
                        }
                        _ => {
                            let w = self.bits_run(col, remaining);
                            let cx = self.cx();
                            let (e, _) = self.gen_expr(k.expr_depth.min(2), cx);
                            entries.push(Entry::Bits(w as u8, e));
                            col += w;
                        }
                    }
                }
            }
        }
        let cost = (1usize << nx) * if nc > 0 { 3 } else { 1 };
        (entries, cost)
    }

    /// how many columns a bits() entry starting at `col` spans
    fn bits_run(&mut self, _col: usize, remaining: usize) -> usize {
        let max = remaining.min(if self.k.wild { 64 } else { 6 });
        1 + self.rng.usize(max)
    }

    // -----------------------------------------------------------------------------------
    // statements

    fn fresh_var(&mut self) -> Option<String> {
        let mut pool: Vec<&str> = self.var_pool.to_vec();
        self.rng.shuffle(&mut pool);
        pool.into_iter()
            .find(|n| self.lookup(n).is_none() && !self.is_output_name(n))
            .map(|s| s.to_string())
    }

    fn let_name(&mut self) -> Option<String> {
        // shadowing an output: only at the very top level, where the binding is permanent
        if self.k.shadow_outputs
            && self.scopes.len() == 1
            && self.while_depth == 0
            && !self.readable.is_empty()
            && self.rng.chance(1, 4)
        {
            let o = self.rng.pick(&self.readable).name.clone();
            if Some(&o) != self.done_sig.as_ref() {
                return Some(o);
            }
        }
        let mut pool: Vec<&str> = self.var_pool.to_vec();
        self.rng.shuffle(&mut pool);
        pool.into_iter()
            .find(|n| self.can_bind(n) && !self.is_output_name(n))
            .map(|s| s.to_string())
    }

    fn gen_let(&mut self) -> Option<Stmt> {
        let name = self.let_name()?;
        self.randoms_in_stmt = 0;
        let cx = self.cx();
        let (e, mag) = self.gen_expr(self.k.expr_depth, cx);
        let (e, mag) = if self.k.wild {
            (e, 64)
        } else {
            self.fit(e, mag, VAR_MAG)
        };
        self.bind(&name, mag.max(1), false);
        Some(Stmt::Let(name, e))
    }

    /// (expression, maximum number of iterations)
    fn gen_bound(&mut self) -> (Expr, usize) {
        let k = self.k;
        self.randoms_in_stmt = 0;
        if k.scale == 4 && self.rng.chance(1, 2) {
            // far more iterations than the caller will ever pull: the step cap ends the run
            let n = *self.rng.pick(&[
                1i64 << 32,
                (1i64 << 32) + 7,
                1i64 << 31,
                1i64 << 40,
                i64::MAX,
                70_000,
                65_536,
            ]);
            return (Expr::Num(n), usize::MAX);
        }
        let w = [k.w_bound_const, k.w_bound_zero, k.w_bound_neg, k.w_bound_expr];
        match self.rng.weighted(&w) {
            0 => {
                let n = self.rng.range(1, k.max_loop);
                (Expr::Num(n), n as usize)
            }
            1 => (Expr::Num(0), 0),
            2 => {
                let n = self.rng.range(1, 3);
                (Expr::num(-n), 0)
            }
            _ => {
                let cx = self.cx();
                let (e, _) = self.gen_expr(k.expr_depth.min(2), cx);
                let m = *self.rng.pick(&[1i64, 3]);
                let masked = Expr::bin(BinOp::And, e, Expr::Num(m));
                match self.rng.below(4) {
                    0 => (
                        Expr::bin(BinOp::Sub, masked, Expr::Num(1)),
                        (m - 1).max(0) as usize,
                    ),
                    1 => (Expr::bin(BinOp::Sub, Expr::Num(0), masked), 0),
                    _ => (masked, m as usize),
                }
            }
        }
    }

    fn push_scope(&mut self, counter: &str, mag: u32) {
        self.scopes.push(vec![VarInfo {
            name: counter.to_string(),
            definite: true,
            reserved: true,
            mag,
        }]);
    }

    fn gen_block(&mut self, depth: u32, budget: usize, need_row: bool) -> (Vec<Stmt>, usize) {
        let k = self.k;
        let n = self.between(k.block_len) as usize;
        let mut out = vec![];
        let mut spent = 0usize;
        let row_at = if need_row { self.rng.usize(n.max(1)) } else { usize::MAX };
        for idx in 0..n.max(1) {
            let left = budget.saturating_sub(spent);
            if idx == row_at {
                let (entries, cost) = self.gen_row(left.max(1));
                spent += cost;
                out.push(Stmt::Row(entries));
                continue;
            }
            let nest_ok = depth < k.max_depth && left >= 2;
            let w = [
                if left >= 1 { k.w_row } else { 0 },
                k.w_let,
                if nest_ok { k.w_loop } else { 0 },
                if left >= 1 { k.w_repeat } else { 0 },
                if nest_ok { k.w_while } else { 0 },
                k.w_reset,
            ];
            if w.iter().all(|x| *x == 0) {
                continue;
            }
            match self.rng.weighted(&w) {
                0 => {
                    let (entries, cost) = self.gen_row(left);
                    spent += cost;
                    out.push(Stmt::Row(entries));
                }
                1 => {
                    if self.k.named_hazard && !self.hazard_done && self.rng.chance(1, 3) {
                        if let Some(s) = self.plant_hazard_use() {
                            out.push(s);
                            continue;
                        }
                    }
                    if let Some(s) = self.gen_let() {
                        out.push(s);
                    }
                }
                2 => {
                    let (bound, iters) = self.gen_bound();
                    let mut pool: Vec<&str> = self.var_pool.to_vec();
                    self.rng.shuffle(&mut pool);
                    let mut var = pool[0].to_string();
                    if self.is_output_name(&var) {
                        continue;
                    }
                    // a counter named like a device output: inside the loop the name means
                    // the counter, after the loop it means the output again
                    if self.k.shadow_outputs && !self.readable.is_empty() && self.rng.chance(1, 8) {
                        let o = self.rng.pick(&self.readable).name.clone();
                        if Some(&o) != self.done_sig.as_ref() && self.lookup(&o).is_none() {
                            var = o;
                        }
                    }
                    let huge = iters == usize::MAX;
                    let iters = if huge { left.max(1) } else { iters };
                    let inner_budget = if iters == 0 { 4 } else { (left / iters).max(huge as usize) };
                    if inner_budget == 0 {
                        continue;
                    }
                    self.push_scope(&var, bits_for(k.max_loop as u64).max(2));
                    self.loop_depth += 1;
                    // (generated before the body, so that it only mentions names that are
                    // visible at any point of the body)
                    let rebind = if k.wild && self.rng.chance(1, 5) {
                        let cx = self.cx();
                        Some(self.gen_expr(2, cx).0)
                    } else {
                        None
                    };
                    // (an endless loop needs a direct row, so that the step cap ends the run)
                    let (mut body, cost) = self.gen_block(depth + 1, inner_budget, huge);
                    // wild only: rebind the loop's own counter inside its body (the properties
                    // leave the number of iterations open then, so only "no panic, every
                    // next() returns" is judged; the body needs a direct row so that the cap
                    // on steps and not the program ends the run)
                    if let Some(e) = rebind {
                        if body.iter().any(|s| matches!(s, Stmt::Row(_))) {
                            let at = self.rng.usize(body.len() + 1);
                            body.insert(at, Stmt::Let(var.clone(), e));
                        }
                    }
                    self.loop_depth -= 1;
                    self.scopes.pop();
                    spent += cost * iters;
                    out.push(Stmt::Loop(var, bound, body));
                }
                3 => {
                    let (bound, iters) = self.gen_bound();
                    let iters = if iters == usize::MAX { left.max(1) } else { iters };
                    let per = if iters == 0 { 4 } else { (left / iters).max(1) };
                    if per == 0 {
                        continue;
                    }
                    self.push_scope("n", bits_for(k.max_loop as u64).max(2));
                    let (entries, cost) = self.gen_row(per);
                    self.scopes.pop();
                    spent += cost * iters;
                    out.push(Stmt::Repeat(bound, entries));
                }
                4 => {
                    if let Some((stmts, cost)) = self.gen_while(depth, left) {
                        spent += cost;
                        out.extend(stmts);
                    }
                }
                _ => out.push(Stmt::ResetRandom),
            }
        }
        (out, spent)
    }

    /// a `while` loop that is guaranteed to end (plus the statements that set it up)
    fn gen_while(&mut self, depth: u32, budget: usize) -> Option<(Vec<Stmt>, usize)> {
        let k = self.k;
        let done_ok = self.done_sig.is_some()
            && self
                .done_sig
                .as_ref()
                .map(|d| self.lookup(d).is_none())
                .unwrap_or(false);
        let w = [
            k.w_while_counter,
            if done_ok { k.w_while_done } else { 0 },
            k.w_while_zero,
        ];
        if w.iter().all(|x| *x == 0) {
            return None;
        }
        let form = self.rng.weighted(&w);
        // remember which variables were definitely assigned before the loop
        let before: Vec<(String, bool)> = self
            .scopes
            .last()
            .unwrap()
            .iter()
            .map(|v| (v.name.clone(), v.definite))
            .collect();
        let restore = |g: &mut Gen<'_>| {
            for v in g.scopes.last_mut().unwrap().iter_mut() {
                let was = before
                    .iter()
                    .find(|(n, _)| *n == v.name)
                    .map(|(_, d)| *d)
                    .unwrap_or(false);
                v.definite = was;
            }
        };
        match form {
            0 => {
                // let k = 0; while((k < m)) ... let k = (k + 1); end while
                let var = self.fresh_var()?;
                let m = self.rng.range(1, 3.min(budget as i64).max(1));
                let inner = budget / m as usize;
                if inner == 0 {
                    return None;
                }
                self.bind(&var, 4, true);
                let before_k: Vec<(String, bool)> = vec![(var.clone(), true)];
                let _ = before_k;
                self.while_depth += 1;
                let (mut body, cost) = self.gen_block(depth + 1, inner, true);
                self.while_depth -= 1;
                body.push(Stmt::Let(
                    var.clone(),
                    Expr::bin(BinOp::Add, Expr::id(&var), Expr::Num(1)),
                ));
                restore(self);
                // the counter itself stays definitely assigned, and so does everything the body
                // binds directly: the loop runs at least once (m >= 1, the counter starts at 0
                // and only the loop's own last statement changes it)
                let direct: Vec<String> = body
                    .iter()
                    .filter_map(|s| match s {
                        Stmt::Let(n, _) => Some(n.clone()),
                        _ => None,
                    })
                    .collect();
                for v in self.scopes.last_mut().unwrap().iter_mut() {
                    if v.name == var || direct.contains(&v.name) {
                        v.definite = true;
                    }
                }
                // "for as long as c evaluates non-zero": 1, any positive, any negative value
                let cond = match self.rng.below(5) {
                    0 | 1 => Expr::bin(BinOp::Lt, Expr::id(&var), Expr::Num(m)),
                    2 => Expr::bin(BinOp::Ne, Expr::id(&var), Expr::Num(m)),
                    3 => Expr::bin(BinOp::Sub, Expr::id(&var), Expr::Num(m)),
                    _ => Expr::bin(BinOp::Sub, Expr::Num(m), Expr::id(&var)),
                };
                Some((
                    vec![
                        Stmt::Let(var.clone(), Expr::Num(0)),
                        Stmt::While(cond, body),
                    ],
                    cost * m as usize,
                ))
            }
            1 => {
                // while(!(DONE)) ... end while : ends once the device asserts DONE
                let done = self.done_sig.clone()?;
                let t = self
                    .dut
                    .as_ref()
                    .and_then(|d| {
                        d.layout.iter().find_map(|(s, b)| match b {
                            SigBeh::DoneAfter(t) if s.name == done => Some(*t),
                            _ => None,
                        })
                    })
                    .unwrap_or(1) as usize;
                // every iteration makes at least one call, so at most t + 1 iterations
                let iters = t + 1;
                let inner = budget / iters;
                if inner == 0 {
                    return None;
                }
                self.while_depth += 1;
                let (body, cost) = self.gen_block(depth + 1, inner, true);
                self.while_depth -= 1;
                restore(self);
                let cond = match self.rng.below(3) {
                    0 => Expr::un(UnOp::Not, Expr::id(&done)),
                    1 => Expr::bin(BinOp::Eq, Expr::id(&done), Expr::Num(0)),
                    _ => Expr::bin(BinOp::Xor, Expr::id(&done), Expr::Num(1)),
                };
                Some((vec![Stmt::While(cond, body)], cost * iters))
            }
            _ => {
                // zero-trip while
                self.while_depth += 1;
                let (mut body, _) = self.gen_block(depth + 1, 4, true);
                self.while_depth -= 1;
                restore(self);
                if self.k.named_hazard && self.hazard_var.is_none() {
                    // a `let` that never runs; reading the variable later is an error
                    let name = "hz".to_string();
                    body.insert(0, Stmt::Let(name.clone(), Expr::Num(1)));
                    // lexically visible afterwards (while opens no scope)
                    self.scopes.last_mut().unwrap().push(VarInfo {
                        name: name.clone(),
                        definite: false,
                        reserved: true,
                        mag: 1,
                    });
                    self.hazard_var = Some(name);
                }
                let cond = match self.rng.below(3) {
                    0 => Expr::Num(0),
                    1 => Expr::bin(BinOp::Lt, Expr::Num(1), Expr::Num(0)),
                    _ => Expr::bin(BinOp::And, Expr::Num(2), Expr::Num(1)),
                };
                Some((vec![Stmt::While(cond, body)], 0))
            }
        }
    }

    /// a statement that certainly hits one of the named conditions when executed
    fn plant_hazard_use(&mut self) -> Option<Stmt> {
        let name = self.let_name()?;
        let cx = Cx {
            read: false,
            var: true,
            random: false,
        };
        let (e, _) = self.gen_expr(1, cx);
        let hz = self.hazard_var.clone().filter(|h| self.lookup(h).is_some());
        let hazard = match self.rng.below(4) {
            0 => Expr::bin(BinOp::Div, e, Expr::Num(0)),
            1 => Expr::bin(BinOp::Rem, e, Expr::bin(BinOp::Sub, Expr::Num(2), Expr::Num(2))),
            2 => Expr::random(Expr::num(-self.rng.range(0, 3))),
            _ => match hz {
                Some(h) => Expr::bin(BinOp::Add, Expr::id(&h), Expr::Num(1)),
                None => Expr::bin(BinOp::Div, Expr::Num(1), Expr::Num(0)),
            },
        };
        self.hazard_done = true;
        self.bind(&name, 8, false);
        Some(Stmt::Let(name, hazard))
    }

    fn gen_declares(&mut self) -> Vec<Stmt> {
        let names = self.virtual_names.clone();
        let mut out = vec![];
        for (i, name) in names.iter().enumerate() {
            let cx = Cx {
                read: true,
                var: false,
                random: self.k.random && i == 0,
            };
            self.randoms_in_stmt = 0;
            // inside a declaration every identifier is a device output: temporarily forget
            // all variables
            let saved = std::mem::replace(&mut self.scopes, vec![vec![]]);
            let e = if !self.readable.is_empty() && self.rng.chance(1, 3) {
                // identity: the value can be decoded
                Expr::Id(self.rng.pick(&self.readable).name.clone())
            } else {
                self.gen_expr(self.k.expr_depth.min(2), cx).0
            };
            self.scopes = saved;
            let e = if self.k.virtual_const_fail_pct > 0
                && self.rng.below(100) < self.k.virtual_const_fail_pct as u64
            {
                // fails on every evaluation, without reading an output
                let op = if self.rng.chance(1, 2) { BinOp::Div } else { BinOp::Rem };
                Expr::bin(op, Expr::Num(1 + self.rng.below(9) as i64), Expr::Num(0))
            } else {
                e
            };
            out.push(Stmt::Declare(name.clone(), e));
        }
        out
    }

    pub fn gen_program(&mut self) -> Program {
        let declares = self.gen_declares();
        let (mut stmts, _) = self.gen_block(0, self.k.max_rows, true);
        // place the declarations: anywhere at top level, sometimes inside the first block
        for d in declares {
            let nested = self.rng.chance(1, 4);
            let mut placed = false;
            if nested {
                for s in stmts.iter_mut() {
                    if let Stmt::Loop(_, _, body) | Stmt::While(_, body) = s {
                        let at = self.rng.usize(body.len() + 1);
                        body.insert(at, d.clone());
                        placed = true;
                        break;
                    }
                }
            }
            if !placed {
                let at = self.rng.usize(stmts.len() + 1);
                stmts.insert(at, d);
            }
        }
        if self.k.random
            && self.k.trailing_random_while_pct > 0
            && self.rng.below(100) < self.k.trailing_random_while_pct as u64
        {
            // the run ends when the draw says so; a caller that polls again after `None`
            // must not make it draw again
            self.randoms_in_stmt = 0;
            let (entries, _) = self.gen_row(1);
            let cond = match self.rng.below(3) {
                0 => Expr::bin(BinOp::Sub, Expr::random(Expr::Num(3)), Expr::Num(1)),
                1 => Expr::bin(BinOp::And, Expr::random(Expr::Num(4)), Expr::Num(1)),
                _ => Expr::bin(BinOp::Lt, Expr::random(Expr::Num(5)), Expr::Num(3)),
            };
            stmts.push(Stmt::While(cond, vec![Stmt::Row(entries)]));
        }
        if self.k.ghost_let && self.virtual_names.is_empty() && !self.readable.is_empty() && self.rng.chance(1, 4) {
            let o = self.rng.pick(&self.readable).name.clone();
            if Some(&o) != self.done_sig.as_ref() {
                stmts.insert(
                    0,
                    Stmt::While(Expr::Num(0), vec![Stmt::Let(o, Expr::Num(7))]),
                );
            }
        }
        Program {
            header: self.header.clone(),
            stmts,
        }
    }
}

/// One complete case from one PRNG stream. Order of draws is fixed: configuration, DUT,
/// program, schedule, seeds.
pub fn gen_case(rng: Rng, knobs: &Knobs) -> Case {
    let mut g = Gen::new(rng, knobs);
    g.gen_config();
    let want_done = knobs.w_while > 0 && knobs.w_while_done > 0;
    g.gen_dut(want_done);
    let program = g.gen_program();
    let mut dut = g.dut.take().unwrap();
    let mut rng = g.rng.fork();

    if knobs.layout_may_miss_read && rng.chance(1, 3) && !dut.layout.is_empty() {
        // the driver lacks one, several or all of the outputs it was assumed to supply when
        // the program was generated: the constructor must refuse if any of them is read
        match rng.below(3) {
            0 => {
                let at = rng.usize(dut.layout.len());
                dut.layout.remove(at);
            }
            1 => {
                let n = 1 + rng.usize(dut.layout.len());
                for _ in 0..n {
                    let at = rng.usize(dut.layout.len());
                    dut.layout.remove(at);
                }
            }
            _ => dut.layout.clear(),
        }
    }
    let _ = (&Fault {
        at_call: 0,
        kind: FaultKind::Error,
        id: 0,
    },);

    let mut schedule = vec![Action::Construct(0), Action::Run(0)];
    if rng.chance(knobs.stop_early_pct as u64, 100) {
        let n = rng.usize(12);
        schedule = vec![Action::Construct(0)];
        for _ in 0..n {
            schedule.push(Action::Next(0));
        }
        schedule.push(Action::DropIt(0));
    } else if rng.chance(knobs.after_none_pct as u64, 100) {
        for _ in 0..(1 + rng.usize(3)) {
            schedule.push(Action::Next(0));
        }
    }
    let inspect = if rng.chance(knobs.inspect_pct as u64, 100) {
        let den = *rng.pick(&[1u32, 2, 3, 5]);
        Some((rng.next_u64(), 1, den))
    } else {
        None
    };
    Case {
        signals: g.signals.clone(),
        program,
        duts: vec![dut],
        schedule,
        entropy: vec![rng.next_u64()],
        hash_seed: rng.next_u64(),
        reparse: vec![],
        run_static: false,
        static_first: false,
        inspect,
        max_steps: knobs.max_steps,
        continue_after_error: rng.chance(knobs.continue_pct as u64, 100),
        source_override: None,
        dig_file: None,
        thread_seed: None,
        prelude: vec![],
    }
}
