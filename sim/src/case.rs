//! A fully explicit, serialisable simulated run: configuration, program, DUTs with their
//! fault plans, the caller's schedule, entropy and hash-order seeds. Running a `Case` is a
//! pure function of it (and of the code in /repo).

use crate::dut::DutSpec;
use crate::json::J;
use crate::model::{Program, SigSpec};
use crate::rng::{hash_str, mix};

#[derive(Clone, Debug, PartialEq, Eq, Hash)]
pub enum Action {
    /// construct iterator i over the shared test, driving duts[i]
    Construct(u8),
    /// one `next()` on iterator i
    Next(u8),
    /// `next()` on iterator i until it returns `None` or an error item (or the cap is hit)
    Run(u8),
    /// one `vars()` on iterator i
    Vars(u8),
    /// drop iterator i
    DropIt(u8),
}

#[derive(Clone, Debug, PartialEq, Eq, Hash)]
pub struct Case {
    pub signals: Vec<SigSpec>,
    pub program: Program,
    pub duts: Vec<DutSpec>,
    pub schedule: Vec<Action>,
    /// entropy override per iterator
    pub entropy: Vec<u64>,
    /// hash order used for the (first) parse
    pub hash_seed: u64,
    /// further parses of the same text under these hash orders
    pub reparse: Vec<u64>,
    /// additionally run the test through `try_iter_static`
    pub run_static: bool,
    /// the static iteration happens before the dynamic schedule instead of after it
    pub static_first: bool,
    /// after a row has been yielded by step j of an iterator, call `vars()` iff
    /// mix(seed, j) % den < num
    pub inspect: Option<(u64, u32, u32)>,
    /// cap on `next()` calls per iterator
    pub max_steps: usize,
    /// keep calling `next()` after error items (only rows that are still yielded are judged)
    pub continue_after_error: bool,
    /// corpus runs: this text (a test from tests/data/*.dig) is fed to the parser instead of
    /// the printed `program`; there is no model, only history-only oracles apply
    pub source_override: Option<String>,
    /// corpus runs: the fixture (file name under tests/data) the test was taken from
    pub dig_file: Option<String>,
    /// F27: the caller is a multi-threaded program. `None`: everything happens on one OS
    /// thread. `Some(s)`: the parse, the static iteration and every single action of the
    /// schedule (`try_iter`, each `next()`, each `vars()`) is executed on one of three OS
    /// threads chosen by `mix(s, action index, step)`; the threads are released one at a time
    /// (the caller's thread blocks until the action has returned), so the choice of who
    /// runs is the schedule's and the execution stays a pure function of the case.
    pub thread_seed: Option<u64>,
    /// F28: other tests that the same OS thread(s) ran to completion before this one (a
    /// worker that runs one test after the other). Their results are not judged; they are
    /// part of the history this run starts from.
    pub prelude: Vec<Case>,
}

impl Case {
    /// which OS thread (0 = the caller's own, 1 and 2 = helper threads) executes the action
    /// identified by `what` (schedule position or a fixed code) and `step`
    pub fn thread_for(&self, what: u64, step: u64) -> usize {
        match self.thread_seed {
            None => 0,
            Some(s) => (mix(&[s, what, step]) % 3) as usize,
        }
    }

    pub fn inspects(&self, step: usize) -> bool {
        match self.inspect {
            None => false,
            Some((seed, num, den)) => mix(&[seed, step as u64]) % (den.max(1) as u64) < num as u64,
        }
    }

    /// the text that is fed to the parser
    pub fn source_text(&self) -> String {
        match &self.source_override {
            Some(s) => s.clone(),
            None => self.program.to_text(),
        }
    }

    /// structural hash (used for "distinct cases")
    pub fn fingerprint(&self) -> u64 {
        hash_str(&self.to_json().to_compact())
    }

    pub fn to_json(&self) -> J {
        J::obj()
            .set("signals", J::arr(&self.signals, |s| s.to_json()))
            .set("program", self.program.to_json())
            .set("source", J::s(self.source_text()))
            .set("duts", J::arr(&self.duts, |d| d.to_json()))
            .set(
                "schedule",
                J::arr(&self.schedule, |a| match a {
                    Action::Construct(i) => J::Arr(vec![J::s("construct"), J::i(*i)]),
                    Action::Next(i) => J::Arr(vec![J::s("next"), J::i(*i)]),
                    Action::Run(i) => J::Arr(vec![J::s("run"), J::i(*i)]),
                    Action::Vars(i) => J::Arr(vec![J::s("vars"), J::i(*i)]),
                    Action::DropIt(i) => J::Arr(vec![J::s("drop"), J::i(*i)]),
                }),
            )
            .set("entropy", J::arr(&self.entropy, |e| J::i(*e)))
            .set("hash_seed", J::i(self.hash_seed))
            .set("reparse", J::arr(&self.reparse, |e| J::i(*e)))
            .set("run_static", J::Bool(self.run_static))
            .set("static_first", J::Bool(self.static_first))
            .set(
                "inspect",
                match self.inspect {
                    None => J::Null,
                    Some((s, n, d)) => J::Arr(vec![J::i(s), J::i(n), J::i(d)]),
                },
            )
            .set(
                "dig_file",
                match &self.dig_file {
                    Some(s) => J::s(s.clone()),
                    None => J::Null,
                },
            )
            .set(
                "thread_seed",
                match self.thread_seed {
                    Some(s) => J::i(s),
                    None => J::Null,
                },
            )
            .set("prelude", J::arr(&self.prelude, |c| c.to_json()))
            .set("max_steps", J::u(self.max_steps))
            .set("continue_after_error", J::Bool(self.continue_after_error))
            .set(
                "source_override",
                match &self.source_override {
                    Some(s) => J::s(s.clone()),
                    None => J::Null,
                },
            )
    }

    pub fn from_json(j: &J) -> Result<Case, String> {
        let schedule = j
            .req("schedule")?
            .as_arr()?
            .iter()
            .map(|a| {
                let a = a.as_arr()?;
                if a.len() != 2 {
                    return Err("bad action".to_string());
                }
                let i = a[1].as_i64()? as u8;
                Ok(match a[0].as_str()? {
                    "construct" => Action::Construct(i),
                    "next" => Action::Next(i),
                    "run" => Action::Run(i),
                    "vars" => Action::Vars(i),
                    "drop" => Action::DropIt(i),
                    other => return Err(format!("bad action {other:?}")),
                })
            })
            .collect::<Result<Vec<_>, String>>()?;
        let u64s = |j: &J| -> Result<Vec<u64>, String> {
            j.as_arr()?.iter().map(|x| x.as_u64()).collect()
        };
        Ok(Case {
            signals: j
                .req("signals")?
                .as_arr()?
                .iter()
                .map(SigSpec::from_json)
                .collect::<Result<_, _>>()?,
            program: Program::from_json(j.req("program")?)?,
            duts: j
                .req("duts")?
                .as_arr()?
                .iter()
                .map(DutSpec::from_json)
                .collect::<Result<_, _>>()?,
            schedule,
            entropy: u64s(j.req("entropy")?)?,
            hash_seed: j.req("hash_seed")?.as_u64()?,
            reparse: u64s(j.req("reparse")?)?,
            run_static: j.req("run_static")?.as_bool()?,
            static_first: j.get("static_first").map(|v| v.as_bool()).transpose()?.unwrap_or(false),
            inspect: match j.req("inspect")? {
                J::Null => None,
                a => {
                    let a = a.as_arr()?;
                    Some((a[0].as_u64()?, a[1].as_i64()? as u32, a[2].as_i64()? as u32))
                }
            },
            max_steps: j.req("max_steps")?.as_usize()?,
            continue_after_error: match j.get("continue_after_error") {
                Some(b) => b.as_bool()?,
                None => false,
            },
            prelude: match j.get("prelude") {
                Some(a @ J::Arr(_)) => a
                    .as_arr()?
                    .iter()
                    .map(Case::from_json)
                    .collect::<Result<Vec<_>, String>>()?,
                _ => vec![],
            },
            thread_seed: match j.get("thread_seed") {
                Some(J::Null) | None => None,
                Some(v) => Some(v.as_u64()?),
            },
            dig_file: match j.get("dig_file") {
                Some(J::Str(s)) => Some(s.clone()),
                _ => None,
            },
            source_override: match j.get("source_override") {
                Some(J::Str(s)) => Some(s.clone()),
                _ => None,
            },
        })
    }
}
