//! Per-property families: how cases are generated (knobs, fault and schedule space) and how a
//! run is judged (which oracles, what counts as non-trivial).

use crate::case::{Action, Case};
use crate::dut::{Fault, FaultKind, ModelAnswer, SigBeh, SigId, TableW};
use crate::gen::{gen_case, Knobs};
use crate::model::*;
use crate::oracle::{self, lockstep, Violation, What};
use crate::reference::{
    run_reference, ErrClass, Probe, RefInput, RefItem, RefRun, N_PROBES,
};
use crate::rng::{mix, Rng};
use crate::run::{run_case, Ctor, Draw, Item, IterHist, Load, RKind, RunOut, StaticHist, StaticItem};

pub const N_FAULT_KINDS: usize = 30;
pub const FAULT_NAMES: [&str; N_FAULT_KINDS] = [
    "-",
    "F1_driver_error_in_constructor",
    "F2_driver_error_on_checked_row",
    "F3_driver_error_on_write_only_call",
    "F4_driver_error_on_forwarded_write",
    "F5_layout_drop",
    "F6_layout_add",
    "F7_layout_duplicate",
    "F8_layout_swap",
    "F9_layout_substitute",
    "F10_answer_Z",
    "F11_answer_X",
    "F12_answer_boundary_or_wide",
    "F13_layout_omits_read_output",
    "F14_empty_layout",
    "F15_driver_overrides_write_input",
    "F16_entropy_varied",
    "F17_hash_order_varied",
    "F18_caller_stops_at_prefix",
    "F19_next_after_none",
    "F20_interleaved_iterators",
    "F21_rerun_or_reparse",
    "F22_vars_inspection",
    "F23_caller_continues_after_error_item",
    "F24_second_device_with_other_layout_on_same_test",
    "F25_static_rows_requested_before_dynamic_run",
    "F26_device_lists_an_output_the_test_does_not_know",
    "F27_caller_spreads_parse_construct_next_vars_over_os_threads",
    "F28_same_threads_ran_another_test_before",
    "F29_driver_rewrites_one_signal_table_in_place",
];

#[derive(Clone, Debug)]
pub struct Eval {
    pub violation: Option<Violation>,
    /// the explicit case that shows the violation (defaults to the evaluated case)
    pub violating_case: Option<Case>,
    pub nontrivial: bool,
    /// number of simulated runs this evaluation performed
    pub runs: u64,
    pub signature: u64,
    pub faults: [u32; N_FAULT_KINDS],
    pub probes: [u32; N_PROBES],
    pub ticks: u64,
    pub log_hash: u64,
    /// a real trace was compared with the reference and agreed
    pub validated: bool,
    /// the comparison with the reference was cut short by something deliberately unspecified
    pub unspecified: bool,
    pub harness_error: Option<String>,
    pub extra_nontrivial: u64,
    /// the program came from the repository's .dig fixtures
    pub corpus: bool,
}

impl Eval {
    fn new() -> Eval {
        Eval {
            violation: None,
            violating_case: None,
            nontrivial: false,
            runs: 0,
            signature: 0,
            faults: [0; N_FAULT_KINDS],
            probes: [0; N_PROBES],
            ticks: 0,
            log_hash: 0,
            validated: false,
            unspecified: false,
            harness_error: None,
            extra_nontrivial: 0,
            corpus: false,
        }
    }
}

#[derive(Clone, Copy, Debug, PartialEq, Eq)]
pub enum Tier {
    Quick,
    Thorough,
}

#[derive(Clone, Copy, Debug, PartialEq, Eq)]
pub enum Prop {
    C01,
    C02,
    C03,
    C04,
    C05,
    C06,
    C10,
    C13,
    C14,
    C15,
    C17,
    C18,
}

pub const ALL_PROPS: [Prop; 12] = [
    Prop::C01,
    Prop::C02,
    Prop::C03,
    Prop::C04,
    Prop::C05,
    Prop::C06,
    Prop::C10,
    Prop::C13,
    Prop::C14,
    Prop::C15,
    Prop::C17,
    Prop::C18,
];

impl Prop {
    pub fn id(self) -> &'static str {
        match self {
            Prop::C01 => "C01",
            Prop::C02 => "C02",
            Prop::C03 => "C03",
            Prop::C04 => "C04",
            Prop::C05 => "C05",
            Prop::C06 => "C06",
            Prop::C10 => "C10",
            Prop::C13 => "C13",
            Prop::C14 => "C14",
            Prop::C15 => "C15",
            Prop::C17 => "C17",
            Prop::C18 => "C18",
        }
    }
    pub fn from_id(s: &str) -> Option<Prop> {
        ALL_PROPS.iter().copied().find(|p| p.id() == s)
    }
    pub fn index(self) -> u64 {
        ALL_PROPS.iter().position(|p| *p == self).unwrap() as u64
    }
    /// runs per tier
    pub fn budget(self, tier: Tier) -> u64 {
        let quick = match self {
            Prop::C13 => 6_000,
            Prop::C15 => 120_000,
            Prop::C17 => 200_000,
            _ => 400_000,
        };
        match tier {
            Tier::Quick => quick,
            Tier::Thorough => quick * 25,
        }
    }
    pub fn level(self) -> &'static str {
        if self == Prop::C13 {
            "fault_enumeration"
        } else {
            "exploration"
        }
    }
    pub fn rule(self) -> &'static str {
        match self {
            Prop::C01 => "cases: seeded programs (nesting of let/loop/repeat/while around rows, shadowing names from a tiny pool, bounds constant/zero/negative/variable/device-read) against a seeded DUT; non-trivial: the program has a loop or while and the run yields >= 2 rows; distinct: structural hash of the whole case",
            Prop::C02 => "cases: seeded programs incl. clock rows, DUT overriding write_input or not, injected driver errors, caller stopping at a prefix or calling next() after None; non-trivial: >= 3 driver calls and (overriding DUT with a clock row, or a driver error fired, or the caller deviated from run-to-end); distinct: case hash",
            Prop::C03 => "cases: seeded tests with checked rows against seeded layouts (subset/permutation/empty) and answers incl. Z, X, negative, boundary; non-trivial: a checked row was yielded and (the layout is not the identity on the output signals, or some answer was Z/X/negative/boundary); distinct: case hash",
            Prop::C04 => "cases: programs reading outputs in rows, lets, bounds and while conditions against tagged/counting DUTs; non-trivial: some evaluated read happened after >= 2 answers had been received (so a stale or early value would differ); distinct: case hash",
            Prop::C05 => "cases: rows with C and input-X entries in seeded positions, at seeded loop depth; non-trivial: some executed source row had a C or an input X; distinct: case hash",
            Prop::C06 => "cases: configuration swarm (signal list order, header order/subset, bidirectional halves split); non-trivial: signal-list order differs from header order, or a signal is omitted from the header, or a bidirectional signal is present, and >= 1 row was yielded; distinct: case hash",
            Prop::C10 => "cases: named family (a named condition is certain on the executed path) and wild family (liberal arithmetic on boundary values, widths up to 64, Z/X/boundary answers, driver errors); non-trivial: the run executed boundary arithmetic, a width >= 63, a named condition, a Z/X read or a driver error; distinct: case hash",
            Prop::C13 => "cases: sampled (test, DUT) pairs; for each, the fault-free run and one run per (call index, applicable fault kind); evaluations counts single simulated runs; non-trivial: a fault fired on a call; distinct: (case hash, call index, fault kind)",
            Prop::C14 => "cases: programs with 1-3 declares over tagged/counting DUT outputs, incl. Z/X answers and same-name variables; non-trivial: a virtual signal was evaluated on >= 2 checked rows with different device answers, or read Z/X; distinct: case hash",
            Prop::C15 => "cases: one text parsed under several hash orders, iterated solo, repeatedly and by 2-4 interleaved iterators under seeded schedules, plus static vs dynamic streams; non-trivial: >= 2 declares, or >= 2 iterators with >= 2 steps each, or a static/dynamic pair with a non-constant DUT; distinct: case hash",
            Prop::C17 => "cases: programs using random/resetRandom in rows, lets, bounds, conditions, ite branches and one declare, under seeded entropy; non-trivial: >= 2 draws, or a reset followed by a draw, or a draw that steers control flow; distinct: case hash",
            Prop::C18 => "cases: C01's programs with deep shadowing and virtual signals, vars() inspected at seeded steps; non-trivial: >= 1 inspection at a row with a non-empty environment inside a loop; distinct: case hash",
        }
    }
}

// ---------------------------------------------------------------------------------------
// knobs per family

fn knobs_for(prop: Prop, sub: u64, tier: Tier, rng: &mut Rng) -> Knobs {
    let mut k = Knobs::base();
    if tier == Tier::Thorough {
        // deeper, longer, wider: not just more of the same
        k.max_depth = 4;
        k.max_rows = 600;
        k.max_steps = 700;
        k.max_loop = 6;
        k.block_len = (1, 6);
        k.expr_depth = 4;
        k.n_in = (k.n_in.0, k.n_in.1 + 2);
        if rng.chance(1, 20) {
            k.max_depth = 5;
            k.max_rows = 1500;
            k.max_steps = 2048;
        }
    }
    // scale swarm (DESIGN.md section 2.4): one run in 400 (quick) / 100 (thorough) leaves the
    // ordinary sizes along one dimension
    let scale_roll = rng.below(if tier == Tier::Thorough { 100 } else { 400 });
    let scale: u8 = if scale_roll == 0 { 1 + rng.below(5) as u8 } else { 0 };
    match prop {
        Prop::C01 => {
            k.w_in_x = 0;
            k.w_in_c = 0;
            k.w_in_z = 0;
            k.w_exp_z = 1;
            k.w_loop = 5;
            k.w_while = 3;
            k.w_repeat = 2;
            k.w_let = 6;
            k.w_in_expr = 6;
            k.w_in_bits = 2;
            k.w_bound_expr = 4;
            k.shadow_outputs = true;
            k.ghost_let = sub % 4 == 1;
            k.header_swarm = false;
            k.w_layout = [4, 2, 0, 0];
            k.w_beh_tagged = 0;
            k.swarm(rng);
            // occasionally Z/X answers so that a device-read bound can be unreadable (F10)
            if rng.chance(1, 10) {
                k.table.z = 1;
                k.table.x = 1;
            }
            if sub % 6 == 3 {
                // a virtual signal that sometimes cannot be evaluated and a caller that keeps
                // going: the rows that follow are still the prescribed ones
                k.n_virtual = (1, 1);
                k.table.z = 2;
                k.table.x = 1;
                k.w_beh_table = 6;
                k.w_layout = [4, 2, 0, 0];
                k.continue_pct = 100;
                k.failing_stmt_pct = 50;
            }
        }
        Prop::C02 => {
            k.w_in_c = 3;
            k.w_in_x = 1;
            k.driver_error_pct = 35;
            k.stop_early_pct = 20;
            k.after_none_pct = 25;
            k.inspect_pct = 10;
            k.swarm(rng);
            k.w_in_c = k.w_in_c.max(1);
            if rng.chance(1, 8) {
                k.table.z = 1;
                k.table.x = 1;
            }
            // the protocol holds for every row that is yielded, also after error items
            k.continue_pct = 15;
            k.layout_may_miss_read = sub % 9 == 4;
            if sub % 10 == 3 {
                // draws decide when the run ends; the caller polls again after `None`
                k.random = true;
                k.trailing_random_while_pct = 50;
                k.after_none_pct = 70;
                k.stop_early_pct = 0;
            }
            if sub % 10 == 7 {
                // an input-only device: no output, bidirectional or virtual signal at all
                k.n_out = (0, 0);
                k.n_bidir = (0, 0);
                k.n_virtual = (0, 0);
                k.override_pct = 80;
            }
            if matches!(sub % 10, 1 | 5) {
                // round 10: virtual signals next to clock rows on a device that overrides the
                // write-only call - the mid-clock writes stay write-only whatever the test declares
                k.n_virtual = (1, 2);
                k.override_pct = 80;
                k.w_in_c = k.w_in_c.max(3);
            }
        }
        Prop::C03 => {
            k.n_out = (1, 4);
            k.n_bidir = (0, 2);
            k.w_loop = 1;
            k.w_while = 0;
            k.w_let = 1;
            k.w_exp_lit = 6;
            k.w_exp_x = 3;
            k.w_exp_z = 2;
            k.w_layout = [1, 3, 4, 1];
            k.w_beh_tagged = 3;
            k.w_beh_table = 6;
            k.w_beh_const = 2;
            k.w_leaf_read = 0;
            k.table = TableW {
                small: 6,
                byte: 1,
                fit: 1,
                boundary: 2,
                z: 2,
                x: 2,
            };
            k.value_fault_pct = 20;
            k.continue_pct = 10;
            if sub % 6 == 4 {
                // a virtual signal that reads an output which is sometimes Z/X, a caller that
                // keeps going, devices that regularly repeat their previous answer: a row is
                // judged by the answer of its own call, whatever became of the row before
                k.n_virtual = (1, 1);
                k.w_leaf_read = 4;
                k.continue_pct = 100;
                k.w_beh_tagged = 0;
                k.w_beh_table = 8;
                k.w_beh_const = 2;
                k.table = TableW {
                    small: 6,
                    byte: 0,
                    fit: 0,
                    boundary: 0,
                    z: 3,
                    x: 1,
                };
                k.w_layout = [4, 2, 0, 0];
            }
            if sub % 6 == 5 {
                // variables (top-level lets, loop counters) named like a device output whose
                // answers come from a tiny set or count in step with the loop: the device
                // regularly answers exactly the value the variable of that name holds
                k.shadow_outputs = true;
                k.w_loop = 4;
                k.w_let = 3;
                k.n_out = (1, 2);
                k.n_bidir = (0, 0);
                k.w_beh_tagged = 0;
                k.w_beh_counter = 4;
                k.w_beh_const = 1;
                k.table = TableW {
                    small: 10,
                    byte: 0,
                    fit: 0,
                    boundary: 0,
                    z: 1,
                    x: 0,
                };
                k.w_layout = [4, 2, 0, 0];
            }
        }
        Prop::C04 => {
            k.probe_inputs = true;
            k.w_in_identity = 12;
            k.w_leaf_read = 8;
            k.w_in_expr = 6;
            k.w_in_x = if sub % 2 == 0 { 0 } else { 1 };
            k.w_in_c = 3;
            k.w_beh_tagged = 6;
            k.w_beh_counter = 3;
            k.w_beh_table = 2;
            k.w_layout = [2, 3, 2, 0];
            k.shadow_outputs = true;
            k.ghost_let = sub % 4 == 1;
            k.layout_may_miss_read = sub % 5 == 0;
            k.header_swarm = sub % 3 == 0;
            k.swarm(rng);
            k.w_leaf_read = 8;
            if rng.chance(1, 6) {
                k.table.z = 2;
                k.table.x = 2;
                k.w_beh_table = 6;
            }
            if sub % 8 == 3 {
                // a driver that deviates from its layout in one call (injected in generate())
                // and a caller that keeps going: by name, the answer of that call is still
                // the latest one
                k.continue_pct = 100;
            }
            if sub % 4 == 1 {
                // a virtual signal that may fail (Z/X), a caller that keeps going: reads in
                // later rows must be unaffected
                k.n_virtual = (1, 1);
                k.table.z = 2;
                k.table.x = 1;
                k.w_beh_table = 6;
                k.continue_pct = 100;
                k.w_let = k.w_let.max(4);
            }
        }
        Prop::C05 => {
            k.w_in_x = 5;
            k.w_in_c = 5;
            k.max_x = if tier == Tier::Thorough { 6 } else { 4 };
            k.max_c = 3;
            k.n_in = (1, 5);
            k.w_in_bits = 2;
            k.w_in_expr = 4;
            k.w_beh_counter = 4;
            k.w_beh_tagged = 3;
            k.override_pct = 75;
            k.driver_error_pct = 10;
            k.w_exp_x = 4;
            k.w_exp_z = 2;
            k.w_let = 2;
            k.w_while = 1;
            let keep = (k.w_in_x, k.w_in_c);
            k.swarm(rng);
            if rng.chance(4, 5) {
                k.w_in_x = keep.0;
            }
            if rng.chance(4, 5) {
                k.w_in_c = keep.1;
            }
            if sub % 5 == 2 {
                // a driver that fails in the middle of an expansion and a caller that keeps
                // going: the rows that are still pending are the prescribed ones (the rest of
                // the clock triple, the remaining X assignments)
                k.driver_error_pct = 70;
                k.continue_pct = 100;
            }
        }
        Prop::C06 => {
            k.n_in = (0, 4);
            k.n_out = (0, 4);
            k.n_bidir = (0, 2);
            k.w_in_lit = 12;
            k.w_in_expr = 1;
            k.w_exp_lit = 8;
            k.w_leaf_read = 1;
            k.w_loop = 1;
            k.w_while = 0;
            k.w_let = 1;
            k.w_in_x = 1;
            k.w_in_c = 1;
            k.header_swarm = true;
            k.shuffle_signals = true;
            k.n_virtual = (0, 1);
            if rng.chance(1, 8) {
                // the `changed` invariant is about the vectors handed to the driver, whatever
                // became of the rows
                k.table.z = 1;
                k.table.x = 1;
                k.driver_error_pct = 50;
                k.continue_pct = 100;
            }
        }
        Prop::C10 => {
            k.shadow_outputs = true;
            if sub % 2 == 0 {
                // named
                k.named_hazard = true;
                k.w_let = 8;
                k.w_while = 4;
                k.w_while_zero = 4;
                k.random = true;
                k.table.z = 0;
            } else {
                // wild
                k.wild = true;
                k.random = true;
                k.sign_ext = true;
                k.widths = vec![1, 2, 8, 32, 62, 63, 64, 63, 64];
                k.n_in = (0, 3);
                k.n_out = (0, 3);
                k.n_bidir = (0, 2);
                k.n_virtual = (0, 2);
                k.table = TableW {
                    small: 3,
                    byte: 1,
                    fit: 2,
                    boundary: 4,
                    z: 1,
                    x: 1,
                };
                k.w_beh_table = 8;
                k.w_layout = [2, 2, 2, 1];
                k.driver_error_pct = 10;
                k.w_in_bits = 2;
                k.w_exp_bits = 2;
                k.w_bound_expr = 1;
                k.max_rows = 60;
                k.max_steps = 80;
                k.inspect_pct = 20;
                k.swarm(rng);
            }
        }
        Prop::C13 => {
            k.probe_inputs = true;
            k.w_in_identity = 6;
            k.w_leaf_read = 5;
            k.max_rows = 40;
            k.max_steps = 64;
            k.max_depth = 2;
            k.w_in_c = 2;
            k.w_beh_tagged = 6;
            k.w_beh_table = 2;
            k.w_layout = [2, 3, 3, 0];
            k.n_out = (1, 4);
            k.n_bidir = (0, 2);
            k.n_virtual = (0, 1);
            k.swarm(rng);
        }
        Prop::C14 => {
            k.n_virtual = (1, 3);
            k.n_out = (1, 4);
            k.w_beh_tagged = 6;
            k.w_beh_counter = 4;
            k.w_beh_table = 2;
            k.w_in_c = 2;
            k.shadow_outputs = true;
            k.w_layout = [3, 3, 1, 0];
            k.w_let = 5;
            k.swarm(rng);
            if rng.chance(1, 5) {
                k.table.z = 2;
                k.table.x = 2;
                k.w_beh_table = 6;
                // every checked row has its virtual entries, also the ones after a row whose
                // virtual signal could not be evaluated
                if rng.chance(2, 3) {
                    k.continue_pct = 100;
                }
            }
        }
        Prop::C15 => {
            k.n_virtual = (0, 6);
            k.n_in = (1, 5);
            k.w_in_c = 3;
            k.max_c = 3;
            k.w_leaf_read = if sub % 3 == 0 { 0 } else { 4 };
            k.shadow_outputs = true;
            k.max_rows = 60;
            k.max_steps = 80;
            k.w_layout = [3, 3, 2, 1];
            if rng.chance(1, 6) {
                k.table.z = 1;
                k.table.x = 1;
            }
            k.swarm(rng);
            k.layout_may_miss_read = sub % 7 == 1;
            k.virtual_const_fail_pct = 4;
            if sub % 4 == 2 {
                // "whatever the driver returns": errors and layout deviations in the dynamic
                // runs, a caller that keeps going
                k.driver_error_pct = 40;
                k.continue_pct = 100;
                k.table.z = 1;
            }
        }
        Prop::C17 => {
            k.random = true;
            k.w_reset = 3;
            k.n_virtual = (0, 1);
            k.w_in_x = 0;
            k.w_in_c = 1;
            k.w_loop = 4;
            k.w_while = 2;
            k.w_let = 6;
            k.widths = vec![1, 4, 8, 16, 32, 62];
            k.dup_random_entry = true;
            k.trailing_random_while_pct = 10;
            k.swarm(rng);
            if sub % 5 == 1 {
                // statements that fail right after a draw, a caller that keeps going: the
                // generator's state is what the draws made of it, whatever failed in between
                k.continue_pct = 100;
                k.failing_stmt_pct = 100;
                k.w_reset = 5;
            }
        }
        Prop::C18 => {
            k.w_in_x = 1;
            k.w_in_c = 1;
            k.w_loop = 6;
            k.w_while = 3;
            k.w_repeat = 2;
            k.w_let = 8;
            k.n_virtual = (0, 2);
            k.shadow_outputs = true;
            k.inspect_pct = 100;
            k.header_swarm = false;
            k.swarm(rng);
            k.w_let = k.w_let.max(4);
            if sub % 5 == 2 {
                k.n_virtual = (1, 2);
                k.table.z = 2;
                k.table.x = 1;
                k.w_beh_table = 6;
                k.continue_pct = 100;
            }
            if sub % 5 == 4 {
                // statements and rows that fail inside loops, a caller that keeps going: the
                // loop goes on, its frame is popped at its end as ever
                k.continue_pct = 100;
                k.failing_stmt_pct = 100;
            }
        }
    }
    apply_scale(&mut k, scale, prop);
    k
}

fn apply_scale(k: &mut Knobs, scale: u8, prop: Prop) {
    match scale {
        1 => {
            // hundreds of outputs, most of them supplied
            k.scale = 1;
            k.widths = vec![1, 1, 1, 8];
            k.w_layout = [3, 3, 1, 0];
            k.max_rows = 12;
            k.block_len = (1, 3);
            k.max_depth = 1;
            k.exotic_names = false;
            k.n_bidir = (0, 0);
        }
        2 => {
            // dozens of inputs
            k.scale = 2;
            k.widths = vec![1, 1, 1, 4];
            k.max_rows = 24;
            k.block_len = (1, 4);
            k.exotic_names = false;
            k.w_in_lit = k.w_in_lit.max(8);
        }
        3 if prop != Prop::C13 => {
            // up to ten input X in one row
            k.scale = 3;
            k.widths = vec![1, 1, 2];
            k.w_in_x = 12;
            k.max_x = 10;
            k.w_in_lit = 6;
            k.max_rows = 2100;
            k.max_steps = 2300;
            k.block_len = (1, 2);
            k.max_depth = 1;
            k.exotic_names = false;
            k.n_bidir = (0, 0);
        }
        4 => {
            k.scale = 4;
            k.w_loop = k.w_loop.max(4);
            k.w_repeat = k.w_repeat.max(2);
        }
        5 => {
            k.scale = 5;
            k.max_depth = 7;
            k.max_loop = 2;
            k.block_len = (1, 2);
            k.w_loop = 10;
            k.w_while = 3;
            k.w_row = 6;
            if prop != Prop::C13 {
                k.max_rows = 400;
                k.max_steps = 500;
            }
        }
        _ => {}
    }
}

// ---------------------------------------------------------------------------------------
// generation

/// a case built from one of the repository's own .dig fixtures (no model)
fn corpus_case(prop: Prop, rng: &mut Rng) -> Option<Case> {
    let corpus = crate::corpus::corpus();
    if corpus.tests.is_empty() {
        return None;
    }
    let t = &corpus.tests[rng.usize(corpus.tests.len())];
    let mut layout: Vec<SigSpec> = t.signals.iter().filter(|s| s.is_output()).cloned().collect();
    match rng.below(4) {
        0 => {}
        1 => rng.shuffle(&mut layout),
        _ => {
            // the tests read some outputs (Counter.dig reads OUT): a subset that lacks them is
            // refused by the constructor, which is fine and exercised, but keep most complete
            rng.shuffle(&mut layout);
            if rng.chance(1, 3) {
                let keep = rng.usize(layout.len() + 1);
                layout.truncate(keep);
            }
        }
    }
    let zx = rng.chance(1, 4);
    let layout: Vec<(SigSpec, SigBeh)> = layout
        .into_iter()
        .map(|s| {
            let beh = match rng.below(6) {
                0 => SigBeh::Tagged,
                1 => SigBeh::Counter(rng.range(0, 9), rng.range(1, 3)),
                2 => SigBeh::Const(OutVal::Num(rng.below(2) as i64)),
                3 => SigBeh::Echo(1 << s.bits.min(8)),
                _ => SigBeh::Table(TableW {
                    small: 6,
                    byte: 1,
                    fit: 3,
                    boundary: if zx { 1 } else { 0 },
                    z: if zx { 1 } else { 0 },
                    x: if zx { 1 } else { 0 },
                }),
            };
            (s, beh)
        })
        .collect();
    let max_steps = if prop == Prop::C13 { 48 } else { 400 };
    let mut case = Case {
        signals: t.signals.clone(),
        program: Program {
            header: vec![],
            stmts: vec![],
        },
        duts: vec![crate::dut::DutSpec {
            layout,
            seed: rng.next_u64(),
            overrides_write: rng.chance(1, 2),
            in_place: false,
            alternate_memory: false,
            hold: 1,
            faults: vec![],
        }],
        schedule: vec![Action::Construct(0), Action::Run(0)],
        entropy: vec![rng.next_u64()],
        hash_seed: rng.next_u64(),
        reparse: vec![],
        run_static: false,
        static_first: false,
        inspect: if rng.chance(1, 5) {
            Some((rng.next_u64(), 1, 3))
        } else {
            None
        },
        max_steps,
        continue_after_error: false,
        source_override: Some(t.source.clone()),
        dig_file: Some(t.file.clone()),
        thread_seed: None,
        prelude: vec![],
    };
    if matches!(prop, Prop::C02 | Prop::C10) && rng.chance(1, 3) {
        let probe = run_case(&case);
        let n = probe.iters.first().map(|i| i.calls.len()).unwrap_or(0) as u64;
        if n > 0 {
            case.duts[0].faults.push(Fault {
                at_call: rng.below(n),
                kind: FaultKind::Error,
                id: 1000 + rng.below(1_000_000),
            });
        }
    }
    if prop == Prop::C02 && rng.chance(1, 4) {
        for _ in 0..(1 + rng.usize(3)) {
            case.schedule.push(Action::Next(0));
        }
    }
    if prop == Prop::C15 {
        case.max_steps = 80;
        c15_shape(&mut case, rng);
    }
    Some(case)
}

/// Scale beyond anything the ordinary generator reaches: 2^16 and more live bindings when a
/// loop is entered (thorough tier only; one such run takes about half a minute because the
/// library's variable store is a linear list).
fn huge_env_case(rng: &mut Rng) -> Case {
    let n = *rng.pick(&[65_535usize, 65_536, 65_537, 65_540, 70_000]);
    let mut stmts: Vec<Stmt> = (0..n)
        .map(|i| Stmt::Let(format!("v{i}"), Expr::Num((i % 251) as i64)))
        .collect();
    let probe = format!("v{}", rng.usize(n));
    let row = |e: Expr| Stmt::Row(vec![Entry::Expr(e), Entry::X]);
    let mut body = vec![row(Expr::bin(BinOp::Add, Expr::id(&probe), Expr::id("i")))];
    if rng.chance(1, 2) {
        body.push(Stmt::Let(probe.clone(), Expr::Num(7)));
        body.push(row(Expr::id(&probe)));
    }
    if rng.chance(1, 2) {
        body.push(Stmt::Loop(
            "j".into(),
            Expr::Num(2),
            vec![
                Stmt::Let("w".into(), Expr::id("j")),
                row(Expr::bin(BinOp::Add, Expr::id("w"), Expr::id("i"))),
            ],
        ));
    }
    stmts.push(Stmt::Loop("i".into(), Expr::Num(2), body));
    stmts.push(row(Expr::id(&probe)));
    stmts.push(row(Expr::id("v0")));
    let q = SigSpec {
        name: "Q".into(),
        bits: 8,
        kind: SigKind::Out,
        default: InVal::Num(0),
    };
    Case {
        signals: vec![
            SigSpec {
                name: "A".into(),
                bits: 16,
                kind: SigKind::In,
                default: InVal::Num(0),
            },
            q.clone(),
        ],
        program: Program {
            header: vec!["A".into(), "Q".into()],
            stmts,
        },
        duts: vec![crate::dut::DutSpec {
            layout: vec![(q, SigBeh::Counter(0, 1))],
            seed: rng.next_u64(),
            overrides_write: rng.chance(1, 2),
            in_place: false,
            alternate_memory: false,
            hold: 1,
            faults: vec![],
        }],
        schedule: vec![Action::Construct(0), Action::Run(0)],
        entropy: vec![rng.next_u64()],
        hash_seed: rng.next_u64(),
        reparse: vec![],
        run_static: false,
        static_first: false,
        inspect: Some((rng.next_u64(), 1, 1)),
        max_steps: 64,
        continue_after_error: false,
        source_override: None,
        dig_file: None,
        thread_seed: None,
        prelude: vec![],
    }
}

pub fn generate(prop: Prop, run_seed: u64, tier: Tier) -> Case {
    let mut case = generate_on_one_thread(prop, run_seed, tier);
    // F27: one case in 128 is executed by a multi-threaded caller. Drawn from a stream of
    // its own so that the cases themselves are the same as without this fault kind.
    let t = mix(&[run_seed, 0x7153_AD27]);
    let small = case.program.stmts.len() <= 20_000;
    // F29: one device in eight keeps a single table of signals and rewrites it for every
    // answer, so the entries of all its answers live at the same addresses
    if mix(&[run_seed, 0x7153_AD29]) % 8 == 0 {
        for d in &mut case.duts {
            d.in_place = true;
            d.alternate_memory = mix(&[run_seed, 0x7153_AD2A]) % 2 == 0;
        }
    }
    // one device in six holds its table/counter outputs for 2-4 calls (identical consecutive
    // answers, identical Z/X included)
    {
        let h = mix(&[run_seed, 0x7153_AD2B]);
        if h % 6 == 0 {
            for d in &mut case.duts {
                d.hold = 2 + ((h >> 8) % 3) as u32;
            }
        }
    }
    if t % 128 == 0 && small {
        case.thread_seed = Some(mix(&[t, 1]));
    }
    // F28: one case in 128 starts on threads that have run another test before: an unrelated
    // test of the same family, or a close relative of this very test (same text bound to the
    // signal list in reverse order and driven by a device with other values; or the same
    // configuration and device with every declared expression changed).
    let u = mix(&[run_seed, 0x7153_AD28]);
    if u % 128 == 0 && small {
        let mut prelude = match (u >> 8) % 4 {
            0 | 1 => generate_on_one_thread(prop, mix(&[u, 2]), tier),
            2 => {
                let mut p = case.clone();
                p.signals.reverse();
                for d in &mut p.duts {
                    d.seed = mix(&[d.seed, 3]);
                }
                p
            }
            _ => {
                let mut p = case.clone();
                bump_declares(&mut p.program.stmts);
                p
            }
        };
        if prelude.program.stmts.len() <= 20_000 {
            prelude.thread_seed = match (u >> 12) % 3 {
                0 => None,
                1 => case.thread_seed,
                _ => Some(mix(&[u, 4])),
            };
            prelude.prelude.clear();
            prelude.max_steps = prelude.max_steps.min(96);
            prelude.reparse.clear();
            case.prelude.push(prelude);
        }
    }
    case
}

/// plants statements whose evaluation fails at run time (division by zero): a `let` of a name
/// nothing else uses, or a copy of a neighbouring row with one entry replaced
fn plant_failing(stmts: &mut Vec<Stmt>, rng: &mut Rng, random: bool, left: &mut usize) {
    let mut i = 0;
    while i <= stmts.len() {
        if *left > 0 && rng.chance(1, 4) {
            let zero_div = |num: Expr| Expr::Bin(BinOp::Div, Box::new(num), Box::new(Expr::Num(0)));
            // (a row that stands earlier in this very block: every name it uses is still bound)
            let row = stmts[..i.min(stmts.len())].iter().rev().find_map(|s| match s {
                Stmt::Row(e) => Some(e.clone()),
                _ => None,
            });
            let planted = match row {
                Some(mut entries) if rng.chance(1, 2) => {
                    match entries.iter().position(|e| matches!(e, Entry::Num(_) | Entry::Expr(_))) {
                        Some(p) => {
                            entries[p] = Entry::Expr(zero_div(Expr::Num(7)));
                            Some(Stmt::Row(entries))
                        }
                        None => None,
                    }
                }
                _ => {
                    // (never a draw inside the failing expression itself: whether the dividend
                    // of a division by zero is evaluated at all is left open, §4)
                    let _ = random;
                    Some(Stmt::Let("zz".into(), zero_div(Expr::Num(7))))
                }
            };
            if let Some(st) = planted {
                stmts.insert(i, st);
                *left -= 1;
                i += 1;
            }
        }
        if i < stmts.len() {
            match &mut stmts[i] {
                Stmt::Loop(_, _, body) | Stmt::While(_, body) => plant_failing(body, rng, random, left),
                _ => {}
            }
        }
        i += 1;
    }
}

fn bump_declares(stmts: &mut [Stmt]) {
    for s in stmts {
        match s {
            Stmt::Declare(_, e) => {
                let old = std::mem::replace(e, Expr::Num(0));
                *e = Expr::Bin(BinOp::Add, Box::new(old), Box::new(Expr::Num(1)));
            }
            Stmt::Loop(_, _, body) | Stmt::While(_, body) => bump_declares(body),
            _ => {}
        }
    }
}

fn generate_on_one_thread(prop: Prop, run_seed: u64, tier: Tier) -> Case {
    let mut rng = Rng::new(run_seed);
    let sub = rng.next_u64() % 60;
    if tier == Tier::Thorough
        && matches!(prop, Prop::C01 | Prop::C18)
        && rng.below(1_500_000) == 0
    {
        return huge_env_case(&mut rng);
    }
    // a small share of the runs uses the repository's own fixtures as programs
    if matches!(
        prop,
        Prop::C02 | Prop::C03 | Prop::C06 | Prop::C10 | Prop::C13 | Prop::C15
    ) && rng.below(64) == 0
    {
        if let Some(case) = corpus_case(prop, &mut rng) {
            return case;
        }
    }
    let knobs = knobs_for(prop, sub, tier, &mut rng);
    let mut case = gen_case(rng.fork(), &knobs);
    if case.continue_after_error && knobs.failing_stmt_pct > 0 {
        let mut frng = Rng::new(mix(&[run_seed, 0xFA11]));
        if frng.chance(knobs.failing_stmt_pct as u64, 100) {
            let mut left = 1 + frng.usize(3);
            plant_failing(&mut case.program.stmts, &mut frng, knobs.random, &mut left);
        }
    }
    let mut rng = rng.fork();

    // faults that need the call count of the fault-free run
    if knobs.driver_error_pct > 0 || knobs.value_fault_pct > 0 {
        let want_err = rng.chance(knobs.driver_error_pct as u64, 100);
        let want_val = rng.chance(knobs.value_fault_pct as u64, 100);
        if want_err || want_val {
            let probe = run_case(&case);
            let n = probe.iters.first().map(|i| i.calls.len()).unwrap_or(0) as u64;
            if n > 0 {
                if want_err {
                    // bias: the constructor's call and the last call are interesting
                    let at = match rng.below(6) {
                        0 => 0,
                        1 => n - 1,
                        _ => rng.below(n),
                    };
                    case.duts[0].faults.push(Fault {
                        at_call: at,
                        kind: FaultKind::Error,
                        id: 1000 + rng.below(1_000_000),
                    });
                }
                if want_val && !case.duts[0].layout.is_empty() {
                    let at = rng.below(n);
                    let p = rng.usize(case.duts[0].layout.len());
                    let bits = case.duts[0].layout[p].0.bits;
                    let vals = [
                        OutVal::Z,
                        OutVal::X,
                        OutVal::Num(-1),
                        OutVal::Num(i64::MIN),
                        OutVal::Num(i64::MAX),
                        OutVal::Num(if bits < 62 { 1 << bits } else { i64::MAX }),
                    ];
                    case.duts[0].faults.push(Fault {
                        at_call: at,
                        kind: FaultKind::Value(p, *rng.pick(&vals)),
                        id: 0,
                    });
                }
            }
        }
    }

    if matches!(prop, Prop::C15 | Prop::C04) && case.continue_after_error && rng.chance(1, 2) {
        let lay = case.duts[0].layout.len();
        if lay >= 1 {
            let at = 1 + rng.below(6);
            let kind = match rng.below(3) {
                0 if lay >= 2 => FaultKind::Swap(0, lay - 1),
                1 => FaultKind::SubstName(rng.usize(lay)),
                _ => FaultKind::Drop(rng.usize(lay)),
            };
            case.duts[0].faults.push(Fault {
                at_call: at,
                kind,
                id: 0,
            });
        }
    }
    // a device that lists, in every answer, an output the test does not know in place of one
    // it knows (same number of entries as the test has outputs)
    if matches!(prop, Prop::C03 | Prop::C04) && !case.duts[0].layout.is_empty() && rng.chance(1, 12) {
        let p = rng.usize(case.duts[0].layout.len());
        case.duts[0].faults.push(Fault {
            at_call: 0,
            kind: FaultKind::PermanentForeign(p),
            id: 0,
        });
    }
    // a device that dumps all its pins: after the test's outputs it lists a signal with the
    // name of one of them and another width (C03: attribution is by signal, not by name). Only
    // where the program reads no output: which of two entries of one name a *read* denotes is
    // left open
    if prop == Prop::C03
        && !case.duts[0].layout.is_empty()
        && crate::reference::read_outputs(&case.program).is_empty()
        && mix(&[run_seed, 0xA11A5]) % 10 == 0
    {
        let p = (mix(&[run_seed, 0xA11A6]) % case.duts[0].layout.len() as u64) as usize;
        case.duts[0].faults.push(Fault {
            at_call: 0,
            kind: FaultKind::PermanentAlias(p),
            id: 0,
        });
    }
    match prop {
        Prop::C15 => c15_shape(&mut case, &mut rng),
        Prop::C17 => c17_shape(&mut case, &mut rng),
        Prop::C03 => c03_shape(&mut case, &mut rng),
        Prop::C04 | Prop::C14 | Prop::C18 | Prop::C10 => {
            let mut srng = Rng::new(mix(&[run_seed, 0x5EC0_4D]));
            if srng.chance(1, 8) {
                second_device_same_outputs(&mut case, &mut srng);
            }
            if prop == Prop::C10 && srng.chance(1, 4) {
                // the caller also lists the rows of the same test (before or after the run)
                case.run_static = true;
                case.static_first = srng.chance(1, 2);
            }
        }
        _ => {}
    }
    case
}

/// F24 for the families that read outputs: a second device that supplies the same outputs in
/// another order runs the same `TestCase`, after the first one or interleaved with it
fn second_device_same_outputs(case: &mut Case, rng: &mut Rng) {
    if case.duts.len() != 1 || case.duts[0].layout.len() < 2 || !case.duts[0].faults.is_empty() {
        return;
    }
    let first = case.duts[0].clone();
    let mut layout = first.layout.clone();
    rng.shuffle(&mut layout);
    if layout.iter().map(|(s, _)| &s.name).eq(first.layout.iter().map(|(s, _)| &s.name)) {
        layout.reverse();
    }
    case.duts.push(crate::dut::DutSpec {
        layout,
        seed: if rng.chance(1, 2) { first.seed } else { rng.next_u64() },
        overrides_write: rng.chance(1, 2),
        in_place: first.in_place,
        alternate_memory: first.alternate_memory,
        hold: first.hold,
        faults: vec![],
    });
    case.entropy.push(rng.next_u64());
    case.schedule = if rng.chance(1, 2) {
        vec![
            Action::Construct(0),
            Action::Run(0),
            Action::Construct(1),
            Action::Run(1),
        ]
    } else {
        interleaved_schedule(rng, 2, case.max_steps)
    };
}

fn c15_shape(case: &mut Case, rng: &mut Rng) {
    // parse the text under further hash orders
    let n = 1 + rng.usize(3);
    for _ in 0..n {
        case.reparse.push(rng.next_u64());
    }
    case.run_static = true;
    // several iterators, each with its own instance of the same DUT
    let iters = 1 + rng.usize(4);
    let dut = case.duts[0].clone();
    case.duts = (0..iters).map(|_| dut.clone()).collect();
    case.entropy = (0..iters).map(|_| rng.next_u64()).collect();
    case.schedule = interleaved_schedule(rng, iters, case.max_steps);
    case.static_first = rng.chance(1, 2);
}

/// a seeded schedule of constructor, next() and vars() calls over `iters` iterators
fn interleaved_schedule(rng: &mut Rng, iters: usize, max_steps: usize) -> Vec<Action> {
    let mut schedule = vec![];
    let policy = rng.below(4);
    match policy {
        0 => {
            // run to completion, one after the other (re-run)
            for i in 0..iters {
                schedule.push(Action::Construct(i as u8));
                schedule.push(Action::Run(i as u8));
            }
        }
        1 => {
            // round robin
            for i in 0..iters {
                schedule.push(Action::Construct(i as u8));
            }
            for _ in 0..max_steps.min(100) {
                for i in 0..iters {
                    schedule.push(Action::Next(i as u8));
                }
            }
        }
        2 => {
            // random switching, constructors at random points
            let mut constructed = vec![false; iters];
            for _ in 0..(max_steps.min(100) * iters) {
                let i = rng.usize(iters);
                if !constructed[i] {
                    constructed[i] = true;
                    schedule.push(Action::Construct(i as u8));
                } else {
                    schedule.push(Action::Next(i as u8));
                    if rng.chance(1, 10) {
                        schedule.push(Action::Vars(i as u8));
                    }
                }
            }
            for i in 0..iters {
                schedule.push(Action::Construct(i as u8));
                schedule.push(Action::Run(i as u8));
            }
        }
        _ => {
            // bursts
            for i in 0..iters {
                schedule.push(Action::Construct(i as u8));
            }
            for _ in 0..40 {
                let i = rng.usize(iters);
                for _ in 0..(1 + rng.usize(5)) {
                    schedule.push(Action::Next(i as u8));
                }
            }
            for i in 0..iters {
                schedule.push(Action::Run(i as u8));
            }
        }
    }
    schedule
}

/// C03: a caller that asks for the static rows first, and a second run of the same test
/// against a device that lists its outputs differently
fn c03_shape(case: &mut Case, rng: &mut Rng) {
    if rng.chance(1, 8) {
        case.run_static = true;
        case.static_first = true;
    }
    if !rng.chance(1, 5) {
        return;
    }
    let first = case.duts[0].clone();
    let mut layout: Vec<(SigSpec, SigBeh)> = case
        .signals
        .iter()
        .filter(|s| s.is_output())
        .map(|s| {
            let beh = first
                .layout
                .iter()
                .find(|(l, _)| l.name == s.name)
                .map(|(_, b)| b.clone())
                .unwrap_or(SigBeh::Tagged);
            (s.clone(), beh)
        })
        .collect();
    rng.shuffle(&mut layout);
    if rng.chance(1, 2) && !layout.is_empty() {
        let keep = rng.usize(layout.len() + 1);
        layout.truncate(keep);
    }
    let names = |l: &Vec<(SigSpec, SigBeh)>| l.iter().map(|(s, _)| s.name.clone()).collect::<Vec<_>>();
    if names(&layout) == names(&first.layout) {
        if layout.len() >= 2 {
            layout.reverse();
        } else if !layout.is_empty() {
            layout.clear();
        } else {
            return;
        }
    }
    case.duts.push(crate::dut::DutSpec {
        layout,
        seed: rng.next_u64(),
        overrides_write: rng.chance(1, 2),
        in_place: false,
        alternate_memory: false,
        hold: 1,
        faults: vec![],
    });
    case.entropy.push(rng.next_u64());
    case.schedule = if rng.chance(1, 2) {
        vec![
            Action::Construct(0),
            Action::Run(0),
            Action::Construct(1),
            Action::Run(1),
        ]
    } else {
        interleaved_schedule(rng, 2, case.max_steps)
    };
}

/// C17: two iterators over one test, each with its own entropy, interleaved
fn c17_shape(case: &mut Case, rng: &mut Rng) {
    if !rng.chance(1, 6) {
        return;
    }
    let dut = case.duts[0].clone();
    case.duts.push(dut);
    case.entropy.push(rng.next_u64());
    case.schedule = interleaved_schedule(rng, 2, case.max_steps);
}

// ---------------------------------------------------------------------------------------
// shared helpers

pub fn all_draws(it: &IterHist) -> Vec<Draw> {
    let mut d = it.ctor_draws.clone();
    for s in &it.steps {
        d.extend(s.draws.iter().copied());
    }
    d
}

pub fn reference_for(case: &Case, out: &RunOut, iter_idx: usize) -> RefRun {
    let it = &out.iters[iter_idx];
    let draws = all_draws(it);
    let virtual_order: Vec<String> = out
        .sigs
        .iter()
        .filter(|s| s.kind == RKind::Virtual)
        .map(|s| s.name.clone())
        .collect();
    // if the real signal list lacks a declared virtual signal (cannot happen) fall back to
    // declaration order
    let virtual_order = if virtual_order.len() == case.program.declares().len() {
        virtual_order
    } else {
        case.program
            .declares()
            .iter()
            .map(|(n, _)| n.to_string())
            .collect()
    };
    // an iterator the schedule stopped stepping (neither finished nor capped): the reference
    // pulls as many rows as the caller did
    let ended = it.capped
        || match it.steps.last().map(|s| &s.item) {
            None | Some(Item::Row(_)) => false,
            Some(Item::End) | Some(Item::Panic(_)) => true,
            Some(_) => !case.continue_after_error,
        };
    let max_steps = if ended {
        case.max_steps
    } else {
        it.steps.len().min(case.max_steps)
    };
    run_reference(&RefInput {
        signals: &case.signals,
        program: &case.program,
        dut: &case.duts[iter_idx],
        draws: &draws,
        max_steps,
        virtual_order: &virtual_order,
        continue_after_error: case.continue_after_error,
    })
}

fn count_faults(case: &Case, out: &RunOut, f: &mut [u32; N_FAULT_KINDS]) {
    f[28] += case.prelude.len() as u32;
    f[29] += case.duts.iter().filter(|d| d.in_place).count() as u32;
    if case.thread_seed.is_some() {
        // actions (constructor, next()) that ran on another OS thread than the caller's own
        for (i, it) in out.iters.iter().enumerate() {
            if it.constructed && case.thread_for(200 + i as u64, 0) != 0 {
                f[27] += 1;
            }
            for j in 0..it.steps.len() {
                if case.thread_for(i as u64, j as u64) != 0 {
                    f[27] += 1;
                }
            }
        }
    }
    for (di, it) in out.iters.iter().enumerate() {
        let Some(dut) = case.duts.get(di) else { continue };
        if dut.overrides_write {
            f[15] += 1;
        }
        if dut.layout.is_empty() {
            f[14] += 1;
        }
        for (k, c) in it.calls.iter().enumerate() {
            let faults: Vec<&Fault> = dut.faults.iter().filter(|x| x.at_call == k as u64).collect();
            for flt in faults {
                match &flt.kind {
                    FaultKind::Error => {
                        if k == 0 {
                            f[1] += 1
                        } else if c.write_only {
                            f[3] += 1
                        } else {
                            // forwarded write or checked row: decide by the item of the window
                            let step = it.steps.iter().find(|s| s.calls.0 <= k && k < s.calls.1);
                            let _ = step;
                            f[2] += 1
                        }
                    }
                    FaultKind::Drop(_) => f[5] += 1,
                    FaultKind::AddForeign
                    | FaultKind::InsertForeign(_)
                    | FaultKind::AddManyForeign(_) => f[6] += 1,
                    FaultKind::DropMany(_) => f[5] += 1,
                    FaultKind::Dup(_) => f[7] += 1,
                    FaultKind::Swap(..) => f[8] += 1,
                    FaultKind::SubstName(_) | FaultKind::SubstBits(_) | FaultKind::SubstKind(_) => {
                        f[9] += 1
                    }
                    FaultKind::Value(..)
                    | FaultKind::PermanentForeign(_)
                    | FaultKind::PermanentAlias(_) => {}
                }
            }
            if k == 0 {
                f[26] += dut
                    .faults
                    .iter()
                    .filter(|x| {
                        matches!(x.kind, FaultKind::PermanentForeign(_) | FaultKind::PermanentAlias(_))
                    })
                    .count() as u32;
            }
            if let ModelAnswer::Ok(ans) = &c.answer {
                for (sid, v) in ans {
                    match v {
                        OutVal::Z => f[10] += 1,
                        OutVal::X => f[11] += 1,
                        OutVal::Num(n) => {
                            let bits = match sid {
                                SigId::Test(i) => out.sigs.get(*i as usize).map(|s| s.bits).unwrap_or(64),
                                _ => 64,
                            };
                            if *n < 0 || (bits < 63 && *n >= (1i64 << bits)) || *n == i64::MAX {
                                f[12] += 1;
                            }
                        }
                    }
                }
            }
        }
        if matches!(it.ctor, Some(Ctor::RuntimeErr(_))) {
            f[13] += 1;
        }
        if !it.vars.is_empty() {
            f[22] += it.vars.len() as u32;
        }
        if case.continue_after_error {
            for w in it.steps.windows(2) {
                if matches!(w[0].item, Item::RuntimeErr(_) | Item::DriverErr(_)) {
                    f[23] += 1;
                }
            }
        }
        let ended = it.steps.iter().filter(|s| s.item == Item::End).count();
        if ended > 1 {
            f[19] += (ended - 1) as u32;
        }
        let finished = it
            .steps
            .last()
            .map(|s| !matches!(s.item, Item::Row(_)))
            .unwrap_or(false);
        if it.constructed && matches!(it.ctor, Some(Ctor::Ok)) && !finished && !it.capped {
            f[18] += 1;
        }
    }
    if out.iters.len() > 1 {
        f[20] += 1;
        f[21] += 1;
        let names = |d: &crate::dut::DutSpec| d.layout.iter().map(|(s, _)| s.name.clone()).collect::<Vec<_>>();
        if case.duts.iter().skip(1).any(|d| names(d) != names(&case.duts[0])) {
            f[24] += 1;
        }
    }
    if case.static_first && out.statik.is_some() {
        f[25] += 1;
    }
    if !out.reparse.is_empty() {
        f[17] += out.reparse.len() as u32;
        f[21] += 1;
    }
}

/// `count_faults` books every driver error on a non-constructor call that arrived through
/// the reading method as F2; those that the library sent as a write-only call (forwarded by
/// the trait's default `write_input`) are F4. `is_write_step(j)` tells whether step j is a
/// mid-clock row.
fn split_f2_f4(
    case: &Case,
    out: &RunOut,
    f: &mut [u32; N_FAULT_KINDS],
    is_write_step: &dyn Fn(usize) -> bool,
) {
    let (Some(dut), Some(it)) = (case.duts.first(), out.iters.first()) else {
        return;
    };
    if dut.overrides_write {
        return;
    }
    for flt in &dut.faults {
        let k = flt.at_call as usize;
        if flt.kind != FaultKind::Error || k == 0 || k >= it.calls.len() {
            continue;
        }
        if let Some(j) = it.steps.iter().position(|s| s.calls.0 <= k && k < s.calls.1) {
            if is_write_step(j) && f[2] > 0 {
                f[2] -= 1;
                f[4] += 1;
            }
        }
    }
}

fn rows_yielded(it: &IterHist) -> usize {
    it.steps
        .iter()
        .filter(|s| matches!(s.item, Item::Row(_)))
        .count()
}

fn has_control_flow(p: &Program) -> bool {
    fn walk(stmts: &[Stmt]) -> bool {
        stmts.iter().any(|s| {
            matches!(s, Stmt::Loop(..) | Stmt::While(..) | Stmt::Repeat(..))
        })
    }
    walk(&p.stmts)
}

fn signature(out: &RunOut, r: Option<&RefRun>) -> u64 {
    let mut words = vec![];
    if let Some(r) = r {
        for (i, p) in r.probes.iter().enumerate() {
            if *p > 0 {
                words.push(i as u64 * 7919 + (*p).min(3) as u64);
            }
        }
        words.push(r.steps.len().min(40) as u64);
    }
    for it in &out.iters {
        words.push(match it.steps.last().map(|s| &s.item) {
            Some(Item::End) => 1,
            Some(Item::RuntimeErr(_)) => 2,
            Some(Item::DriverErr(_)) => 3,
            Some(Item::Panic(_)) => 4,
            Some(Item::Row(_)) => 5,
            None => 6,
        });
        words.push(it.calls.len().min(50) as u64);
    }
    mix(&words)
}

fn load_violation(prop: Prop, out: &RunOut) -> Option<Violation> {
    let oracle: &'static str = match prop {
        Prop::C01 => "C01.accept",
        Prop::C02 => "C02.accept",
        Prop::C03 => "C03.accept",
        Prop::C04 => "C04.accept",
        Prop::C05 => "C05.accept",
        Prop::C06 => "C06.accept",
        Prop::C10 => "C10.accept",
        Prop::C13 => "C13.accept",
        Prop::C14 => "C14.accept",
        Prop::C15 => "C15.accept",
        Prop::C17 => "C17.accept",
        Prop::C18 => "C18.accept",
    };
    match &out.load {
        Load::Ok => None,
        Load::Panic(p) => Some(Violation {
            oracle,
            detail: format!("loading a well-formed test panicked: {}", p.show()),
        }),
        Load::ParseErr(e) => Some(Violation {
            oracle,
            detail: format!("a well-formed program was rejected by the parser: {e}"),
        }),
        Load::SignalErr(e) => Some(Violation {
            oracle,
            detail: format!("a well-formed (program, signal list) pair was rejected: {e}"),
        }),
    }
}

fn trace_violation(
    oracle: &'static str,
    out: &RunOut,
    case: &Case,
    r: &RefRun,
    care: &dyn Fn(What) -> bool,
) -> Option<Violation> {
    let it = out.iters.first()?;
    lockstep(out, it, r, case.duts[0].overrides_write, care).map(|m| Violation {
        oracle,
        detail: format!("{:?}: {}", m.what, m.detail),
    })
}

fn harness_panic(out: &RunOut) -> Option<String> {
    oracle::find_panic(out)
        .filter(|p| p.in_harness())
        .map(|p| p.show())
}

// ---------------------------------------------------------------------------------------
// evaluation

pub fn evaluate(prop: Prop, case: &Case) -> Eval {
    match prop {
        Prop::C13 => return eval_c13(case),
        Prop::C15 => return eval_c15(case),
        _ => {}
    }
    let mut ev = Eval::new();
    let out = run_case(case);
    ev.runs = 1;
    ev.ticks = out.ticks;
    ev.log_hash = out.log_hash;
    if let Some(h) = harness_panic(&out) {
        ev.harness_error = Some(h);
        return ev;
    }
    if let Some(viol) = load_violation(prop, &out) {
        ev.violation = Some(viol);
        return ev;
    }
    count_faults(case, &out, &mut ev.faults);
    let it = &out.iters[0];
    if case.source_override.is_some() {
        // corpus: no model, history-only oracles
        ev.corpus = true;
        ev.signature = signature(&out, None);
        ev.violation = match prop {
            Prop::C02 => oracle::c02_protocol(case, &out, it, 0),
            Prop::C03 => oracle::c03_attribution(&out, it),
            Prop::C06 => oracle::c06_changed(&out, it)
                .or_else(|| oracle::c06_omitted_never_changed(case, &out, it)),
            Prop::C10 => oracle::find_panic(&out).map(|pi| Violation {
                oracle: "C10.panic",
                detail: pi.show(),
            }),
            _ => None,
        };
        ev.nontrivial = rows_yielded(it) >= 2;
        return ev;
    }
    let r = reference_for(case, &out, 0);
    ev.probes = r.probes;
    ev.signature = signature(&out, Some(&r));
    ev.unspecified = r.unspecified.is_some();
    split_f2_f4(case, &out, &mut ev.faults, &|j| {
        matches!(
            r.steps.get(j).and_then(|s| s.call.as_ref()).map(|c| c.kind),
            Some(crate::reference::CallKind::W)
        )
    });
    let rows = rows_yielded(it);
    let p = |x: Probe| r.probes[x as usize] > 0;

    // a mismatch anywhere means the trace was not validated
    let full = lockstep(&out, it, &r, case.duts[0].overrides_write, &|_| true);
    ev.validated = full.is_none() && r.draw_mismatch.is_none();

    match prop {
        Prop::C01 => {
            ev.violation = trace_violation("C01.trace", &out, case, &r, &|w| {
                !matches!(w, What::Env | What::DeviceOutputs | What::VirtualOutputs)
            });
            ev.nontrivial = has_control_flow(&case.program) && rows >= 2;
        }
        Prop::C02 => {
            ev.violation = oracle::c02_protocol(case, &out, it, 0).or_else(|| {
                trace_violation("C02.kind", &out, case, &r, &|w| {
                    matches!(w, What::CallCount | What::CallKind | What::Ctor)
                })
            });
            let deviated = ev.faults[18] + ev.faults[19] > 0;
            let fired = ev.faults[1] + ev.faults[2] + ev.faults[3] > 0;
            let clocked = p(Probe::RowC1) || p(Probe::RowC2plus);
            ev.nontrivial = it.calls.len() >= 3
                && ((case.duts[0].overrides_write && clocked) || fired || deviated);
        }
        Prop::C03 => {
            ev.violation = oracle::c03_attribution(&out, it).or_else(|| {
                // (a checked row that turns into an error item, or the other way round, also
                // breaks "the output reported ... whatever order the driver lists its outputs in")
                trace_violation("C03.attr_ref", &out, case, &r, &|w| {
                    matches!(w, What::DeviceOutputs | What::ItemClass)
                })
            });
            let outs: Vec<&str> = case
                .signals
                .iter()
                .filter(|s| s.is_output())
                .map(|s| s.name.as_str())
                .collect();
            let lay: Vec<&str> = case.duts[0].layout.iter().map(|(s, _)| s.name.as_str()).collect();
            let checked = it
                .steps
                .iter()
                .any(|s| matches!(&s.item, Item::Row(r) if !r.outputs.is_empty()));
            ev.nontrivial =
                checked && (outs != lay || ev.faults[10] + ev.faults[11] + ev.faults[12] > 0);
            // a second run of the same test against a device with another layout
            for k in 1..out.iters.len() {
                if ev.violation.is_some() {
                    break;
                }
                let itk = &out.iters[k];
                let rk = reference_for(case, &out, k);
                ev.violation = oracle::c03_attribution(&out, itk)
                    .or_else(|| {
                        lockstep(&out, itk, &rk, case.duts[k].overrides_write, &|w| {
                            matches!(w, What::DeviceOutputs | What::ItemClass)
                        })
                        .map(|m| Violation {
                            oracle: "C03.attr_ref",
                            detail: format!("{:?}: {}", m.what, m.detail),
                        })
                    })
                    .map(|mut v| {
                        v.detail = format!(
                            "iterator #{k} of {} over one test (its device lists {:?}, the first \
                             one {:?}): {}",
                            out.iters.len(),
                            case.duts[k].layout.iter().map(|(s, _)| s.name.as_str()).collect::<Vec<_>>(),
                            lay,
                            v.detail
                        );
                        v
                    });
            }
        }
        Prop::C04 => {
            ev.violation = oracle::c04_decode(case, &out, it).or_else(|| {
                trace_violation("C04.trace", &out, case, &r, &|w| {
                    matches!(
                        w,
                        What::Ctor
                            | What::CallCount
                            | What::CallInputs
                            | What::RowInputs
                            | What::RowExpected
                            | What::ItemClass
                    )
                })
            });
            let reads = p(Probe::ReadInRow) || p(Probe::ReadInLet);
            let rw = it
                .steps
                .iter()
                .filter(|s| matches!(&s.item, Item::Row(r) if !r.outputs.is_empty()))
                .count();
            ev.nontrivial = (reads && rw >= 2) || ev.faults[13] > 0 || p(Probe::ZxRead);
        }
        Prop::C05 => {
            ev.violation = trace_violation("C05.shape", &out, case, &r, &|w| {
                matches!(
                    w,
                    What::CallCount
                        | What::CallKind
                        | What::CallInputs
                        | What::RowInputs
                        | What::RowExpected
                        | What::RowShape
                        | What::ItemClass
                )
            });
            ev.nontrivial = p(Probe::RowX1)
                || p(Probe::RowX2)
                || p(Probe::RowX3plus)
                || p(Probe::RowC1)
                || p(Probe::RowC2plus);
        }
        Prop::C06 => {
            ev.violation = oracle::c06_changed(&out, it)
                .or_else(|| oracle::c06_omitted_never_changed(case, &out, it))
                .or_else(|| {
                    trace_violation("C06.inputs", &out, case, &r, &|w| {
                        matches!(w, What::Ctor | What::CallInputs | What::RowInputs)
                    })
                })
                .or_else(|| {
                    trace_violation("C06.outputs", &out, case, &r, &|w| {
                        matches!(w, What::RowExpected | What::RowShape)
                    })
                });
            let sig_order: Vec<&str> = case
                .signals
                .iter()
                .flat_map(|s| match s.kind {
                    SigKind::Bidir => vec![s.name.as_str(), "_out"],
                    _ => vec![s.name.as_str()],
                })
                .collect();
            let hdr: Vec<&str> = case
                .program
                .header
                .iter()
                .map(|h| if h.ends_with("_out") { "_out" } else { h.as_str() })
                .collect();
            ev.nontrivial = rows >= 1
                && (sig_order != hdr || case.signals.iter().any(|s| s.kind == SigKind::Bidir));
        }
        Prop::C10 => {
            if let Some(pi) = oracle::find_panic(&out) {
                ev.violation = Some(Violation {
                    oracle: "C10.panic",
                    detail: pi.show(),
                });
            } else {
                // named: where the reference locates a named condition the item is an error
                let limit = r.unspecified.as_ref().map(|u| u.0).unwrap_or(usize::MAX);
                for (j, rs) in r.steps.iter().enumerate() {
                    if j >= limit {
                        break;
                    }
                    if let RefItem::RuntimeErr(class) = &rs.item {
                        if matches!(
                            class,
                            ErrClass::DivZero
                                | ErrClass::Unassigned
                                | ErrClass::EmptyRandom
                                | ErrClass::ZxRead
                        ) {
                            match it.steps.get(j).map(|s| &s.item) {
                                Some(Item::RuntimeErr(_)) => {}
                                // the run may have legitimately ended earlier only if the
                                // caller stopped; otherwise it is a finding
                                other if full.as_ref().map(|m| m.step) == Some(Some(j)) => {
                                    ev.violation = Some(Violation {
                                        oracle: "C10.named",
                                        detail: format!(
                                            "step {j}: the reference locates {class:?} here; \
                                             next() returned {:?}",
                                            other.map(oracle::brief_item)
                                        ),
                                    });
                                }
                                _ => {}
                            }
                        }
                    }
                }
            }
            let wide = case.signals.iter().any(|s| s.bits >= 63);
            ev.nontrivial = p(Probe::WrappedArith)
                || wide
                || p(Probe::DivZero)
                || p(Probe::Unassigned)
                || p(Probe::EmptyRandom)
                || p(Probe::NotImplemented)
                || p(Probe::ZxRead)
                || ev.faults[1] + ev.faults[2] + ev.faults[3] > 0;
        }
        Prop::C14 => {
            ev.violation = oracle::c14_decode(case, &out, it).or_else(|| {
                trace_violation("C14.value", &out, case, &r, &|w| {
                    matches!(
                        w,
                        What::VirtualOutputs | What::RowShape | What::ItemClass | What::RowExpected
                    )
                })
            });
            ev.nontrivial = r.probes[Probe::VirtualEvaluated as usize] >= 2 || p(Probe::VirtualReadsZx);
        }
        Prop::C17 => {
            ev.violation = c17_iter(case, &out, 0, &r);
            for k in 1..out.iters.len() {
                if ev.violation.is_some() {
                    break;
                }
                let rk = reference_for(case, &out, k);
                ev.violation = c17_iter(case, &out, k, &rk).map(|mut v| {
                    v.detail = format!("iterator #{k} of {} over one test: {}", out.iters.len(), v.detail);
                    v
                });
            }
            if ev.violation.is_none() {
                // same entropy => same log and rows
                let again = run_case(case);
                ev.runs += 1;
                if again.log_hash != out.log_hash {
                    ev.violation = Some(Violation {
                        oracle: "C17.seeded",
                        detail: "two runs with the same entropy seed differ".into(),
                    });
                }
            }
            let draws = r.probes[Probe::RandomDraw as usize];
            ev.nontrivial = draws >= 2 || (p(Probe::ResetRandom) && draws >= 1) || p(Probe::DrawSteersControl);
            ev.faults[16] += 1;
        }
        Prop::C18 => {
            ev.violation = trace_violation("C18.env", &out, case, &r, &|w| w == What::Env)
                .or_else(|| c18_no_outputs(case, &out, &r));
            let inside = it.vars.iter().any(|vr| {
                r.steps
                    .get(vr.after_steps.wrapping_sub(1))
                    .map(|s| !s.env.is_empty())
                    .unwrap_or(false)
            });
            ev.nontrivial = inside && has_control_flow(&case.program);
        }
        Prop::C13 | Prop::C15 => unreachable!(),
    }
    // F24 in the families that read outputs: every further iterator over the same test is
    // judged against its own device's record
    if matches!(prop, Prop::C04 | Prop::C14 | Prop::C18) {
        for k in 1..out.iters.len() {
            if ev.violation.is_some() {
                break;
            }
            let itk = &out.iters[k];
            let rk = reference_for(case, &out, k);
            let (oracle, m) = match prop {
                Prop::C04 => (
                    "C04.trace",
                    lockstep(&out, itk, &rk, case.duts[k].overrides_write, &|w| {
                        matches!(
                            w,
                            What::Ctor
                                | What::CallCount
                                | What::CallInputs
                                | What::RowInputs
                                | What::RowExpected
                                | What::ItemClass
                        )
                    }),
                ),
                Prop::C14 => (
                    "C14.value",
                    lockstep(&out, itk, &rk, case.duts[k].overrides_write, &|w| {
                        matches!(
                            w,
                            What::VirtualOutputs | What::RowShape | What::ItemClass | What::RowExpected
                        )
                    }),
                ),
                _ => (
                    "C18.env",
                    lockstep(&out, itk, &rk, case.duts[k].overrides_write, &|w| w == What::Env),
                ),
            };
            ev.violation = m.map(|m| Violation {
                oracle,
                detail: format!(
                    "iterator #{k} of {} over one test (its device lists its outputs in another \
                     order than the first one's): {:?}: {}",
                    out.iters.len(),
                    m.what,
                    m.detail
                ),
            });
        }
    }
    ev
}

fn c18_no_outputs(case: &Case, out: &RunOut, r: &RefRun) -> Option<Violation> {
    let it = &out.iters[0];
    for vr in &it.vars {
        let Ok(vars) = &vr.result else { continue };
        let Some(rs) = r.steps.get(vr.after_steps.wrapping_sub(1)) else { continue };
        if r.unspecified.as_ref().map(|u| vr.after_steps > u.0).unwrap_or(false) {
            continue;
        }
        // (C18 speaks of the variables at the row just yielded: an inspection after `None` or
        // after an error item is not judged)
        if !matches!(rs.item, RefItem::Row { .. }) {
            continue;
        }
        for (name, _) in vars {
            let is_signal = out.sigs.iter().any(|s| s.name == *name);
            let in_env = rs.env.iter().any(|(n, _)| n == name);
            if is_signal && !in_env {
                return Some(Violation {
                    oracle: "C18.no_outputs",
                    detail: format!(
                        "vars() after step {} contains `{name}`, which is a signal and not a \
                         variable in scope",
                        vr.after_steps - 1
                    ),
                });
            }
        }
    }
    let _ = case;
    None
}

/// C17: invariants over the draw log itself
/// everything C17 demands of one iterator's history
fn c17_iter(case: &Case, out: &RunOut, k: usize, r: &RefRun) -> Option<Violation> {
    let it = &out.iters[k];
    let mut v = c17_log(it).or_else(|| {
        r.draw_mismatch.as_ref().map(|m| Violation {
            oracle: "C17.once",
            detail: m.clone(),
        })
    });
    if v.is_none() && r.unspecified.is_none() && !r.truncated && r.draws_used != r.draws_total {
        v = Some(Violation {
            oracle: "C17.once",
            detail: format!(
                "the run logged {} draw events but the reference's evaluations account for {} \
                 of them",
                r.draws_total, r.draws_used
            ),
        });
    }
    if v.is_none() {
        // (from the first row whose entries made two draws on, which entry got which value
        // depends on the order in which a row's entries are evaluated, which no property
        // fixes: the draw accounting above still covers those rows, the values do not)
        v = lockstep(out, it, r, case.duts[k].overrides_write, &|w| !matches!(w, What::Env))
            .filter(|m| match (m.step, r.multi_draw_step) {
                (Some(s), Some(md)) => s < md,
                (None, Some(_)) => false,
                _ => true,
            })
            .map(|m| Violation {
                oracle: "C17.literal",
                detail: format!("{:?}: {}", m.what, m.detail),
            });
    }
    v
}

fn c17_log(it: &IterHist) -> Option<Violation> {
    let log = all_draws(it);
    // shape: Bound, Draw, Value triples (nested randoms nest), Reset markers in between
    let mut stack: Vec<(i64, u32)> = vec![]; // (bound, draws seen)
    let mut pairs: Vec<(i64, i64)> = vec![];
    let mut segments: Vec<Vec<(i64, i64)>> = vec![vec![]];
    for (i, d) in log.iter().enumerate() {
        match d {
            Draw::Bound(b) => stack.push((*b, 0)),
            Draw::Draw => match stack.last_mut() {
                Some(top) => top.1 += 1,
                None => {
                    return Some(Violation {
                        oracle: "C17.once",
                        detail: format!("draw log entry {i}: generator sampled outside any random() evaluation"),
                    })
                }
            },
            Draw::Value(val) => {
                let Some((b, n)) = stack.pop() else {
                    return Some(Violation {
                        oracle: "C17.once",
                        detail: format!("draw log entry {i}: value without bound"),
                    });
                };
                if n != 1 {
                    return Some(Violation {
                        oracle: "C17.once",
                        detail: format!(
                            "random({b}) sampled the run's generator {n} times for one evaluation"
                        ),
                    });
                }
                if b >= 2 && !(0 <= *val && *val < b) {
                    return Some(Violation {
                        oracle: "C17.range",
                        detail: format!("random({b}) returned {val}"),
                    });
                }
                pairs.push((b, *val));
                segments.last_mut().unwrap().push((b, *val));
            }
            Draw::Reset => segments.push(vec![]),
        }
    }
    // replay after reset: against the first segment... the generator restarts, so every
    // segment is compared with every earlier one: values agree as long as the bounds agreed
    for a in 0..segments.len() {
        for b in (a + 1)..segments.len() {
            for i in 0..segments[a].len().min(segments[b].len()) {
                if segments[a][i].0 != segments[b][i].0 {
                    break;
                }
                if segments[a][i].1 != segments[b][i].1 {
                    return Some(Violation {
                        oracle: "C17.reset",
                        detail: format!(
                            "after resetRandom (segment {b}), draw {i} with the same sequence of \
                             bounds {:?} returned {} but from the start of segment {a} it was {}",
                            segments[a][..=i].iter().map(|p| p.0).collect::<Vec<_>>(),
                            segments[b][i].1,
                            segments[a][i].1
                        ),
                    });
                }
            }
        }
    }
    let _ = pairs;
    None
}

// ---------------------------------------------------------------------------------------
// C13: systematic single-fault enumeration

fn strip_faults(case: &Case) -> Case {
    let mut c = case.clone();
    for d in &mut c.duts {
        d.faults.retain(|f| matches!(f.kind, FaultKind::Value(..)));
    }
    c
}

fn with_fault(base: &Case, at: u64, kind: FaultKind, id: u64) -> Case {
    let mut c = base.clone();
    c.duts[0].faults.push(Fault {
        at_call: at,
        kind,
        id,
    });
    c
}

/// items of an iterator's history as comparable values
fn items(it: &IterHist) -> Vec<&Item> {
    it.steps.iter().map(|s| &s.item).collect()
}

fn c13_judge(base_out: &RunOut, faulted: &Case, fault: &Fault, ev: &mut Eval) -> Option<Violation> {
    let out = run_case(faulted);
    ev.runs += 1;
    ev.ticks += out.ticks;
    if let Some(h) = harness_panic(&out) {
        ev.harness_error = Some(h);
        return None;
    }
    let before = ev.faults;
    count_faults(faulted, &out, &mut ev.faults);
    {
        // book this run's counts, then move forwarded-write errors from F2 to F4
        let mut delta = [0u32; N_FAULT_KINDS];
        for i in 0..N_FAULT_KINDS {
            delta[i] = ev.faults[i] - before[i];
        }
        split_f2_f4(faulted, &out, &mut delta, &|j| {
            matches!(
                base_out.iters[0].steps.get(j).map(|s| &s.item),
                Some(Item::Row(r)) if r.outputs.is_empty()
            )
        });
        for i in 0..N_FAULT_KINDS {
            ev.faults[i] = before[i] + delta[i];
        }
    }
    let it = &out.iters[0];
    let base = &base_out.iters[0];
    let k = fault.at_call as usize;
    // did the fault fire at all? (the call must exist)
    if it.calls.len() <= k {
        return None;
    }
    ev.extra_nontrivial += 1;
    let describe = |item: Option<&Item>| item.map(oracle::brief_item).unwrap_or("nothing".into());
    // the step whose window contains call k (None: the constructor)
    let win = it.steps.iter().position(|s| s.calls.0 <= k && k < s.calls.1);
    // rows before it are those of the fault-free run
    let upto = win.unwrap_or(0);
    if k > 0 {
        let a = items(it);
        let b = items(base);
        if a.len() < upto || b.len() < upto || a[..upto] != b[..upto] {
            return Some(Violation {
                oracle: "C13.prefix",
                detail: format!(
                    "with {:?} injected at call #{k}, the {} items before the affected row differ \
                     from the fault-free run",
                    fault.kind, upto
                ),
            });
        }
    }
    // no returned row attributes to a signal a value the driver reported for another signal
    for (j, s) in it.steps.iter().enumerate() {
        if let Item::Row(row) = &s.item {
            if row.outputs.is_empty() || s.calls.1 == s.calls.0 {
                continue;
            }
            let c = &it.calls[s.calls.1 - 1];
            if let Some(viol) = oracle::row_attribution("C13.nocross", &out, row, c, j) {
                return Some(viol);
            }
        }
        if matches!(s.item, Item::Panic(_)) {
            return Some(Violation {
                oracle: "C13.panic",
                detail: format!(
                    "with {:?} injected at call #{k}: {}",
                    fault.kind,
                    oracle::brief_item(&s.item)
                ),
            });
        }
    }
    if let Some(Ctor::Panic(p)) = &it.ctor {
        return Some(Violation {
            oracle: "C13.panic",
            detail: format!("with {:?} injected at call #{k}: {}", fault.kind, p.show()),
        });
    }
    match &fault.kind {
        FaultKind::Error => {
            if k == 0 {
                if it.ctor != Some(Ctor::DriverErr(fault.id)) {
                    return Some(Violation {
                        oracle: "C13.passthrough",
                        detail: format!(
                            "the constructor's call failed with driver error #{}, but the \
                             constructor returned {:?}",
                            fault.id, it.ctor
                        ),
                    });
                }
            } else {
                let item = win.map(|w| &it.steps[w].item);
                if item != Some(&Item::DriverErr(fault.id)) {
                    return Some(Violation {
                        oracle: "C13.passthrough",
                        detail: format!(
                            "call #{k} failed with driver error #{}, but the next() that made \
                             the call returned {}",
                            fault.id,
                            describe(item)
                        ),
                    });
                }
            }
        }
        FaultKind::Value(..) => {}
        _ => {
            // layout deviation: only visible on a call made for a checked row
            if k == 0 {
                return None;
            }
            let c = &it.calls[k];
            let first = &it.calls[0];
            let (ModelAnswer::Ok(now), ModelAnswer::Ok(then)) = (&c.answer, &first.answer) else {
                return None;
            };
            let differs = now.len() != then.len()
                || now.iter().zip(then.iter()).any(|(a, b)| a.0 != b.0);
            if !differs {
                return None;
            }
            let Some(w) = win else { return None };
            // was this call made for a checked row? compare with the fault-free run: the same
            // step there is a row with outputs (or the library has no expected signals)
            let checked = match base.steps.get(w).map(|s| &s.item) {
                Some(Item::Row(r)) => !r.outputs.is_empty(),
                _ => false,
            };
            if !checked {
                return None;
            }
            match &it.steps[w].item {
                Item::RuntimeErr(_) => {}
                other => {
                    return Some(Violation {
                        oracle: "C13.deviation",
                        detail: format!(
                            "in the call made for the checked row of step {w} (call #{k}) the \
                             driver answered with signals {:?} instead of its first layout \
                             {:?} ({:?}); next() returned {} instead of an error",
                            now.iter().map(|a| a.0).collect::<Vec<_>>(),
                            then.iter().map(|a| a.0).collect::<Vec<_>>(),
                            fault.kind,
                            oracle::brief_item(other)
                        ),
                    })
                }
            }
        }
    }
    None
}

/// the driver's first answer contains entries that later answers lack
fn c13_first_answer(faulted: &Case, fault: &Fault, ev: &mut Eval) -> Option<Violation> {
    let out = run_case(faulted);
    ev.runs += 1;
    ev.ticks += out.ticks;
    if let Some(h) = harness_panic(&out) {
        ev.harness_error = Some(h);
        return None;
    }
    if out.load != Load::Ok {
        return None;
    }
    count_faults(faulted, &out, &mut ev.faults);
    ev.extra_nontrivial += 1;
    let it = &out.iters[0];
    if let Some(Ctor::Panic(p)) = &it.ctor {
        return Some(Violation {
            oracle: "C13.panic",
            detail: format!("first answer with {:?}: constructor: {}", fault.kind, p.show()),
        });
    }
    let ModelAnswer::Ok(first) = &it.calls.first()?.answer else {
        return None;
    };
    for (j, s) in it.steps.iter().enumerate() {
        if let Item::Panic(p) = &s.item {
            return Some(Violation {
                oracle: "C13.panic",
                detail: format!(
                    "the driver's first answer had {} entries ({:?}); at step {j}: {}",
                    first.len(),
                    fault.kind,
                    p.show()
                ),
            });
        }
        if s.calls.1 != s.calls.0 + 1 {
            continue;
        }
        let c = &it.calls[s.calls.0];
        let ModelAnswer::Ok(now) = &c.answer else { continue };
        if c.write_only || now.len() == first.len() {
            continue;
        }
        // an output-reading call (the driver overrides write_input, so it is one made for a
        // checked row) answered with a different number of outputs than the first answer
        if !matches!(s.item, Item::RuntimeErr(_)) {
            return Some(Violation {
                oracle: "C13.deviation",
                detail: format!(
                    "the driver's first answer had {} entries ({:?}), the answer to the call of                      step {j} has {}; next() returned {} instead of an error",
                    first.len(),
                    fault.kind,
                    now.len(),
                    oracle::brief_item(&s.item)
                ),
            });
        }
    }
    None
}

fn eval_c13(case: &Case) -> Eval {
    let mut ev = Eval::new();
    let explicit: Vec<Fault> = case.duts[0]
        .faults
        .iter()
        .filter(|f| !matches!(f.kind, FaultKind::Value(..)))
        .cloned()
        .collect();
    // replay of a double-fault violation: the case carries both faults (two driver errors, or
    // a same-length layout deviation followed by a driver error) and a caller that keeps
    // iterating; it is judged as it stands
    if explicit.len() == 2 && explicit[1].kind == FaultKind::Error && case.continue_after_error {
        ev.violation = c13_double(case, &mut ev);
        ev.nontrivial = true;
        return ev;
    }
    let base_case = {
        // (the fault-free run and the single-fault runs are made with a caller that stops at
        // the first error item, whatever the replayed case says)
        let mut c = strip_faults(case);
        c.continue_after_error = false;
        c
    };
    let base_out = run_case(&base_case);
    ev.runs = 1;
    ev.ticks = base_out.ticks;
    ev.log_hash = base_out.log_hash;
    if let Some(h) = harness_panic(&base_out) {
        ev.harness_error = Some(h);
        return ev;
    }
    if let Some(viol) = load_violation(Prop::C13, &base_out) {
        ev.violation = Some(viol);
        return ev;
    }
    ev.signature = signature(&base_out, None);
    ev.corpus = case.source_override.is_some();
    let base = &base_out.iters[0];
    // the fault-free run itself must not cross-wire
    for (j, s) in base.steps.iter().enumerate() {
        if let Item::Row(row) = &s.item {
            if !row.outputs.is_empty() && s.calls.1 > s.calls.0 {
                let c = &base.calls[s.calls.1 - 1];
                if let Some(viol) = oracle::row_attribution("C13.nocross", &base_out, row, c, j) {
                    ev.violation = Some(viol);
                    return ev;
                }
            }
        }
    }
    let n = base.calls.len();
    let lay = base_case.duts[0].layout.len();
    let mut plans: Vec<Fault> = vec![];
    if !explicit.is_empty() {
        plans = explicit;
    } else {
        let mut id = 5000u64;
        for k in 0..n {
            let mut push = |kind: FaultKind| {
                id += 1;
                plans.push(Fault {
                    at_call: k as u64,
                    kind,
                    id,
                });
            };
            push(FaultKind::Error);
            if k == 0 {
                push(FaultKind::AddForeign);
                for p in 0..lay.min(4) {
                    push(FaultKind::InsertForeign(p));
                    push(FaultKind::Dup(p));
                }
                continue;
            }
            if base.calls[k].write_only {
                continue;
            }
            push(FaultKind::AddForeign);
            // deviations in number by 256 and 65536 (a count kept in a narrow integer)
            if k == 1 || k + 1 == n || k % 5 == 0 {
                push(FaultKind::AddManyForeign(256));
            }
            if k == 1 {
                push(FaultKind::AddManyForeign(65536));
            }
            if lay >= 256 {
                push(FaultKind::DropMany(256));
            }
            let positions: Vec<usize> = if lay <= 4 {
                (0..lay).collect()
            } else {
                // sampled deterministically from the call index
                vec![k % lay, (k * 7 + 3) % lay]
            };
            for p in positions {
                push(FaultKind::Drop(p));
                push(FaultKind::Dup(p));
                push(FaultKind::SubstName(p));
                push(FaultKind::SubstBits(p));
                push(FaultKind::SubstKind(p));
                for q in (p + 1)..lay.min(p + 3) {
                    push(FaultKind::Swap(p, q));
                }
            }
        }
    }
    // deviations in the driver's FIRST answer (foreign or duplicated entries): every later
    // answer then differs from it in number, so every checked row must be an error item.
    // Judged with an overriding driver only (there the device sees which calls read).
    let first_plans: Vec<Fault> = plans
        .iter()
        .filter(|f| {
            f.at_call == 0
                && matches!(
                    f.kind,
                    FaultKind::AddForeign | FaultKind::InsertForeign(_) | FaultKind::Dup(_)
                )
        })
        .cloned()
        .collect();
    plans.retain(|f| {
        !(f.at_call == 0
            && matches!(
                f.kind,
                FaultKind::AddForeign | FaultKind::InsertForeign(_) | FaultKind::Dup(_)
            ))
    });
    for f in first_plans {
        let mut faulted = with_fault(&base_case, 0, f.kind.clone(), f.id);
        faulted.duts[0].overrides_write = true;
        if let Some(viol) = c13_first_answer(&faulted, &f, &mut ev) {
            ev.violation = Some(viol);
            ev.violating_case = Some(faulted);
            ev.nontrivial = true;
            return ev;
        }
        if ev.harness_error.is_some() {
            return ev;
        }
    }
    for f in plans {
        let faulted = with_fault(&base_case, f.at_call, f.kind.clone(), f.id);
        if let Some(viol) = c13_judge(&base_out, &faulted, &f, &mut ev) {
            ev.violation = Some(viol);
            ev.violating_case = Some(faulted);
            break;
        }
        if ev.harness_error.is_some() {
            break;
        }
        // a same-length deviation and a caller that keeps going: no later row may attribute to
        // a signal (neither in its outputs nor through an expression that reads it) a value
        // the driver reported for another signal
        if matches!(f.kind, FaultKind::Swap(..) | FaultKind::Dup(_)) && f.at_call > 0 {
            let mut c = faulted.clone();
            c.continue_after_error = true;
            let out = run_case(&c);
            ev.runs += 1;
            ev.ticks += out.ticks;
            if let Some(h) = harness_panic(&out) {
                ev.harness_error = Some(h);
                break;
            }
            let it = &out.iters[0];
            let mut viol = oracle::c04_decode(&c, &out, it).map(|v| Violation {
                oracle: "C13.nocross",
                detail: format!(
                    "after {:?} at call #{} (caller keeps iterating): {}",
                    f.kind, f.at_call, v.detail
                ),
            });
            if viol.is_none() {
                for (j, s) in it.steps.iter().enumerate() {
                    if let Item::Row(row) = &s.item {
                        if !row.outputs.is_empty() && s.calls.1 > s.calls.0 {
                            let call = &it.calls[s.calls.1 - 1];
                            viol = oracle::row_attribution("C13.nocross", &out, row, call, j);
                            if viol.is_some() {
                                break;
                            }
                        }
                    }
                    if let Item::Panic(p) = &s.item {
                        viol = Some(Violation {
                            oracle: "C13.panic",
                            detail: format!(
                                "after {:?} at call #{} (caller keeps iterating): {}",
                                f.kind,
                                f.at_call,
                                p.show()
                            ),
                        });
                        break;
                    }
                }
            }
            if let Some(v) = viol {
                ev.violation = Some(v);
                ev.violating_case = Some(c);
                break;
            }
        }
    }
    // double faults (two driver errors, a caller that keeps iterating): each error value
    // reaches the caller as the item of exactly the next() whose call failed, no row in
    // between is cross-wired, nothing panics
    if ev.violation.is_none() && ev.harness_error.is_none() && n >= 3 && case.duts[0].faults.is_empty() {
        let pairs = [(1usize, n - 1), (n / 2, n - 1), (1, n / 2 + 1), (2 % n, (n + 2) / 2 + 1)];
        for (a, b) in pairs {
            if a == 0 || a >= b || b >= n {
                continue;
            }
            let mut c = with_fault(&base_case, a as u64, FaultKind::Error, 7001);
            c.duts[0].faults.push(Fault {
                at_call: b as u64,
                kind: FaultKind::Error,
                id: 7002,
            });
            c.continue_after_error = true;
            if let Some(viol) = c13_double(&c, &mut ev) {
                ev.violation = Some(viol);
                ev.violating_case = Some(c);
                break;
            }
            if ev.harness_error.is_some() {
                break;
            }
        }
    }
    // a same-length layout deviation on a checked row, then a driver error at a later call,
    // and a caller that keeps iterating: the later error still reaches the caller as the
    // item of the next() whose call failed
    if ev.violation.is_none() && ev.harness_error.is_none() && n >= 3 && lay >= 1 && case.duts[0].faults.is_empty() {
        let checked: Vec<usize> = (1..n).filter(|&k| !base.calls[k].write_only).collect();
        let mut tried = 0;
        for &a in checked.iter() {
            if tried >= 2 || a + 1 >= n {
                break;
            }
            tried += 1;
            let kind = if lay >= 2 && tried == 1 {
                FaultKind::Swap(0, lay - 1)
            } else {
                FaultKind::SubstName(a % lay)
            };
            let mut bs = vec![a + 1, n - 1];
            bs.dedup();
            for b in bs {
                let mut c = with_fault(&base_case, a as u64, kind.clone(), 7003);
                c.duts[0].faults.push(Fault {
                    at_call: b as u64,
                    kind: FaultKind::Error,
                    id: 7004,
                });
                c.continue_after_error = true;
                if let Some(viol) = c13_double(&c, &mut ev) {
                    ev.violation = Some(viol);
                    ev.violating_case = Some(c);
                    break;
                }
                if ev.harness_error.is_some() {
                    break;
                }
            }
            if ev.violation.is_some() || ev.harness_error.is_some() {
                break;
            }
        }
    }
    ev.nontrivial = ev.extra_nontrivial > 0;
    ev
}

fn c13_double(faulted: &Case, ev: &mut Eval) -> Option<Violation> {
    let out = run_case(faulted);
    ev.runs += 1;
    ev.ticks += out.ticks;
    if let Some(h) = harness_panic(&out) {
        ev.harness_error = Some(h);
        return None;
    }
    if out.load != Load::Ok {
        return None;
    }
    count_faults(faulted, &out, &mut ev.faults);
    let it = &out.iters[0];
    let mut fired = false;
    for f in &faulted.duts[0].faults {
        let k = f.at_call as usize;
        if f.kind != FaultKind::Error || it.calls.len() <= k {
            continue;
        }
        if !fired {
            fired = true;
            ev.extra_nontrivial += 1;
        }
        let win = it.steps.iter().position(|s| s.calls.0 <= k && k < s.calls.1);
        let item = win.map(|w| &it.steps[w].item);
        if item != Some(&Item::DriverErr(f.id)) {
            return Some(Violation {
                oracle: "C13.passthrough",
                detail: format!(
                    "two faults, caller keeps iterating: call #{k} failed with driver \
                     error #{}, but the next() that made the call returned {}",
                    f.id,
                    item.map(oracle::brief_item).unwrap_or("nothing".into())
                ),
            });
        }
    }
    for (j, s) in it.steps.iter().enumerate() {
        match &s.item {
            Item::Row(row) if !row.outputs.is_empty() && s.calls.1 > s.calls.0 => {
                let c = &it.calls[s.calls.1 - 1];
                if let Some(viol) = oracle::row_attribution("C13.nocross", &out, row, c, j) {
                    return Some(viol);
                }
            }
            Item::Panic(p) => {
                return Some(Violation {
                    oracle: "C13.panic",
                    detail: format!("two faults, caller keeps iterating: {}", p.show()),
                })
            }
            Item::DriverErr(id) => {
                // a driver error item that no injected fault accounts for
                let k = s.calls.0;
                if !faulted.duts[0]
                    .faults
                    .iter()
                    .any(|f| f.id == *id && f.at_call as usize == k)
                {
                    return Some(Violation {
                        oracle: "C13.passthrough",
                        detail: format!(
                            "step {j}: driver error #{id} reported, but the call in this window \
                             (#{k}) did not fail with it"
                        ),
                    });
                }
            }
            _ => {}
        }
    }
    None
}

// ---------------------------------------------------------------------------------------
// C15: determinism, re-runnability, static = dynamic

/// what one iterator observed, as a comparable value (sequence numbers removed)
fn iter_view(it: &IterHist) -> Vec<String> {
    let mut v = vec![format!("ctor {:?}", it.ctor)];
    for s in &it.steps {
        let calls: Vec<String> = it.calls[s.calls.0..s.calls.1]
            .iter()
            .map(|c| format!("{:?}/{:?}/{:?}", c.write_only, c.inputs, c.answer))
            .collect();
        v.push(format!("{:?} <- {:?}", strip_random(&s.item), calls));
    }
    v
}

fn strip_random(item: &Item) -> Item {
    item.clone()
}

fn dig_reparse(file: &str) -> Option<Violation> {
    let path = format!("{}/tests/data/{}", crate::corpus::repo_dir(), file);
    let text = std::fs::read_to_string(&path).ok()?;
    let load = || {
        std::panic::catch_unwind(|| text.parse::<digital_test_runner::dig::File>())
            .ok()
            .and_then(|r| r.ok())
    };
    let first = load()?;
    for n in 1..4 {
        let Some(again) = load() else {
            return Some(Violation {
                oracle: "C15.parse",
                detail: format!("{file}: loaded once, but loading it again (#{n}) failed"),
            });
        };
        let tests_equal = first.test_cases.len() == again.test_cases.len()
            && first
                .test_cases
                .iter()
                .zip(again.test_cases.iter())
                .all(|(a, b)| a.name == b.name && a.source == b.source);
        if first.signals != again.signals || !tests_equal {
            return Some(Violation {
                oracle: "C15.parse",
                detail: format!(
                    "{file}: loading the same document again gives signals {:?}, the first load \
                     gave {:?} (tests equal: {tests_equal})",
                    again.signals.iter().map(|s| s.name.as_str()).collect::<Vec<_>>(),
                    first.signals.iter().map(|s| s.name.as_str()).collect::<Vec<_>>(),
                ),
            });
        }
    }
    None
}

fn eval_c15(case: &Case) -> Eval {
    let mut ev = Eval::new();
    let out = run_case(case);
    ev.runs = 1;
    ev.ticks = out.ticks;
    ev.log_hash = out.log_hash;
    if let Some(h) = harness_panic(&out) {
        ev.harness_error = Some(h);
        return ev;
    }
    if let Some(viol) = load_violation(Prop::C15, &out) {
        ev.violation = Some(viol);
        return ev;
    }
    count_faults(case, &out, &mut ev.faults);
    ev.faults[16] += case.entropy.len() as u32;
    ev.signature = signature(&out, None);
    ev.corpus = case.source_override.is_some();
    let ndecl = case.program.declares().len();

    // parse: equal tests, same signal order, under every hash order
    let names: Vec<String> = out.sigs.iter().map(|s| s.name.clone()).collect();
    for rp in &out.reparse {
        if !rp.parsed_equal || !rp.test_equal || rp.signals != names {
            ev.violation = Some(Violation {
                oracle: "C15.parse",
                detail: format!(
                    "parsing the same text again (hash order {:#x}) gave parsed_equal={} \
                     test_equal={} signals={:?} (first parse: {:?}) {}",
                    rp.hash_seed, rp.parsed_equal, rp.test_equal, rp.signals, names, rp.note
                ),
            });
            return ev;
        }
    }
    // the order of virtual signals follows the text (any fixed rule would do for
    // determinism; equality across parses above is what the property demands)

    // a test loaded from a .dig file: loading the same document again gives the same signals
    // in the same order and the same tests (the loader walks hash sets)
    if let Some(f) = &case.dig_file {
        if let Some(viol) = dig_reparse(f) {
            ev.violation = Some(viol);
            return ev;
        }
    }

    // solo run of the same test and DUT
    let mut solo = case.clone();
    solo.duts.truncate(1);
    solo.entropy.truncate(1);
    solo.schedule = vec![Action::Construct(0), Action::Run(0)];
    solo.reparse.clear();
    solo.run_static = false;
    solo.inspect = None;
    let solo_out = run_case(&solo);
    ev.runs += 1;
    ev.ticks += solo_out.ticks;
    let solo_view = iter_view(&solo_out.iters[0]);
    for (i, it) in out.iters.iter().enumerate() {
        if !it.constructed {
            continue;
        }
        // (the solo run drives the first device: only iterators whose device is the same
        // are comparable - generated cases clone one device for all iterators; a candidate
        // of the shrinker that simplifies one device but not the other must not "reproduce")
        if case.duts.get(i) != case.duts.first() {
            continue;
        }
        let view = iter_view(it);
        // an interleaved iterator may have been stepped fewer times: compare the prefix;
        // extra next() after None only add None items
        let n = view.len().min(solo_view.len());
        // (if the solo run was stopped by the step cap, it simply knows no more)
        let extra_ok =
            solo_out.iters[0].capped || view[n..].iter().all(|x| x.starts_with("End"));
        if view[..n] != solo_view[..n] || !extra_ok {
            let at = (0..n).find(|j| view[*j] != solo_view[*j]).unwrap_or(n);
            ev.violation = Some(Violation {
                oracle: "C15.rerun",
                detail: format!(
                    "iterator {i} of {} (interleaved / repeated) differs from the solo run at \
                     item {at}: {:?} vs {:?}",
                    out.iters.len(),
                    view.get(at),
                    solo_view.get(at)
                ),
            });
            return ev;
        }
    }
    // inspection does not perturb: the solo run had no vars() calls, the main run may have

    // hidden state: the same case executed again later in the same process (after the solo
    // run) must give the same event log, entropy and hash order being injected
    let again = run_case(case);
    ev.runs += 1;
    ev.ticks += again.ticks;
    if again.log_hash != out.log_hash {
        ev.violation = Some(Violation {
            oracle: "C15.repeat",
            detail: "executing the same case (same text, signal list, driver responses, \
                     injected entropy and hash order) a second time in the same process gave a \
                     different event log: behaviour depends on something else"
                .into(),
        });
        return ev;
    }

    // static vs dynamic
    let reads = crate::reference::read_outputs(&case.program);
    match &out.statik {
        None => {}
        Some(StaticHist::Panic(p)) => {
            ev.violation = Some(Violation {
                oracle: "C15.static_gate",
                detail: format!("try_iter_static panicked: {}", p.show()),
            });
            return ev;
        }
        Some(StaticHist::Refused(msg)) => {
            if reads.is_empty() && case.source_override.is_none() {
                ev.violation = Some(Violation {
                    oracle: "C15.static_gate",
                    detail: format!("the program reads no outputs but try_iter_static refused: {msg}"),
                });
                return ev;
            }
        }
        Some(StaticHist::Ran(items)) => {
            if !reads.is_empty() && case.source_override.is_none() {
                ev.violation = Some(Violation {
                    oracle: "C15.static_gate",
                    detail: format!(
                        "the program reads outputs {reads:?} but try_iter_static succeeded"
                    ),
                });
                return ev;
            }
            // compare with the solo dynamic run up to its first driver error / end
            let dynamic = &solo_out.iters[0];
            if matches!(dynamic.ctor, Some(Ctor::Ok)) {
                for (j, s) in dynamic.steps.iter().enumerate() {
                    let st = items.get(j);
                    match (&s.item, st) {
                        (Item::Row(row), Some(StaticItem::Row { inputs, expected, line })) => {
                            let exp: Vec<(u32, ExpVal)> =
                                row.outputs.iter().map(|o| (o.sig, o.expected)).collect();
                            if row.inputs != *inputs || exp != *expected || row.line != *line {
                                ev.violation = Some(Violation {
                                    oracle: "C15.static_eq",
                                    detail: format!(
                                        "row {j}: static iteration yields inputs {:?} expected {:?} line {}, \
                                         the dynamic run yields inputs {:?} expected {:?} line {}",
                                        inputs, expected, line, row.inputs, exp, row.line
                                    ),
                                });
                                return ev;
                            }
                        }
                        (Item::End, None) => {}
                        // an error item of the dynamic run that is caused by the device
                        // (driver error, virtual signal reading Z/X, layout deviation) has no
                        // static counterpart; the row it stands for was consumed, so when the
                        // caller keeps going the rows that are still yielded line up with
                        // the static ones position by position
                        (Item::DriverErr(_), _) | (Item::RuntimeErr(_), _) => {
                            // a static-capable program reads no outputs, neither in rows nor in
                            // declarations, so a runtime error of the dynamic run can only come
                            // from a layout deviation of the driver; with a driver that kept its
                            // layout in that call the static stream has the same error, or the
                            // dynamic run is wrong
                            if let (Item::RuntimeErr(text), Some(StaticItem::Row { .. })) =
                                (&s.item, st)
                            {
                                let k = s.calls.0 as u64;
                                let deviated = case.duts[0].faults.iter().any(|f| {
                                    (f.at_call == k || f.at_call == 0)
                                        && !matches!(f.kind, FaultKind::Error | FaultKind::Value(..))
                                });
                                if !deviated && case.source_override.is_none() {
                                    ev.violation = Some(Violation {
                                        oracle: "C15.static_eq",
                                        detail: format!(
                                            "item {j}: the dynamic run (driver keeping its layout) \
                                             has a runtime error ({}) where static iteration \
                                             yields a row",
                                            text.chars().take(120).collect::<String>()
                                        ),
                                    });
                                    return ev;
                                }
                            }
                            if !case.continue_after_error {
                                break;
                            }
                            if matches!(st, Some(StaticItem::Err(_)) | None) {
                                break;
                            }
                        }
                        (Item::End, Some(_)) | (Item::Row(_), None) | (Item::Row(_), Some(_)) => {
                            if dynamic.capped || items.len() >= case.max_steps {
                                break;
                            }
                            ev.violation = Some(Violation {
                                oracle: "C15.static_eq",
                                detail: format!(
                                    "item {j}: the dynamic run has {} where static iteration has {:?}",
                                    s.item.class(),
                                    st
                                ),
                            });
                            return ev;
                        }
                        (Item::Panic(_), _) => break,
                    }
                }
            }
        }
    }
    let stepped = out.iters.iter().filter(|i| i.steps.len() >= 2).count();
    let nonconst = case.duts[0]
        .layout
        .iter()
        .any(|(_, b)| !matches!(b, SigBeh::Const(_)));
    ev.nontrivial = ndecl >= 2
        || stepped >= 2
        || (matches!(out.statik, Some(StaticHist::Ran(_))) && nonconst);
    ev
}
