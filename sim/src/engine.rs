//! Seeded search over simulated runs, in parallel; minimisation; replay files; evidence.

use crate::case::{Action, Case};
use crate::dut::{FaultKind, SigBeh};
use crate::family::{
    evaluate, generate, Eval, Prop, Tier, FAULT_NAMES, N_FAULT_KINDS,
};
use crate::json::{self, J};
use crate::model::*;
use crate::reference::{N_PROBES, PROBE_NAMES};
use crate::rng::mix;
use std::collections::HashSet;
use std::sync::atomic::{AtomicBool, AtomicU64, Ordering};
use std::sync::{Arc, Mutex};
use std::time::{Duration, Instant};

pub const DEFAULT_SEED: u64 = 0xD16_17A1;

/// resident set size of this process in bytes (Linux)
pub fn rss_bytes() -> u64 {
    std::fs::read_to_string("/proc/self/statm")
        .ok()
        .and_then(|s| s.split_whitespace().nth(1).and_then(|x| x.parse::<u64>().ok()))
        .map(|pages| pages * 4096)
        .unwrap_or(0)
}

/// kernel thread id of the calling thread (Linux: /proc/thread-self -> <pid>/task/<tid>)
pub fn my_tid() -> u64 {
    std::fs::read_link("/proc/thread-self")
        .ok()
        .and_then(|p| p.file_name().map(|f| f.to_string_lossy().to_string()))
        .and_then(|s| s.parse::<u64>().ok())
        .unwrap_or(0)
}

/// CPU time (user + system, in clock ticks of 1/100 s) consumed so far by a thread of this
/// process. A hang is a run that keeps consuming CPU without finishing; wall-clock time is
/// no measure of that on a loaded machine, where a healthy thread may simply not be scheduled.
pub fn thread_cpu_ticks(tid: u64) -> Option<u64> {
    if tid == 0 {
        return None;
    }
    let stat = std::fs::read_to_string(format!("/proc/self/task/{tid}/stat")).ok()?;
    // fields after the parenthesised command name: state is #3, utime #14, stime #15
    let rest = &stat[stat.rfind(')')? + 1..];
    let fields: Vec<&str> = rest.split_whitespace().collect();
    let utime = fields.get(11)?.parse::<u64>().ok()?;
    let stime = fields.get(12)?.parse::<u64>().ok()?;
    Some(utime + stime)
}

/// a simulated run that makes the process grow beyond this is runaway allocation (normal:
/// well under 2 GB even for the thorough tier)
pub fn rss_limit() -> u64 {
    std::env::var("DTR_SIM_RSS_LIMIT_GB")
        .ok()
        .and_then(|s| s.parse::<u64>().ok())
        .unwrap_or(8)
        << 30
}

/// set once some simulated run has been caught allocating without bound; the thread that
/// runs it cannot be stopped, so everything winds down and the process exits quickly
pub static RUNAWAY: AtomicBool = AtomicBool::new(false);

pub fn run_seed(verif_seed: u64, prop: Prop, index: u64) -> u64 {
    mix(&[verif_seed, prop.index() + 1, index])
}

#[derive(Default)]
struct Stats {
    evaluations: u64,
    cases: u64,
    nontrivial_fps: HashSet<u64>,
    /// C13: per distinct workload (fingerprint) the number of single-fault runs that fired
    extra_by_case: std::collections::HashMap<u64, u64>,
    signatures: HashSet<u64>,
    faults: Vec<u64>,
    probes: Vec<u64>,
    ticks: u64,
    validated: u64,
    unspecified: u64,
    corpus: u64,
    samples: Vec<(u64, Case)>,
}

impl Stats {
    fn new() -> Stats {
        Stats {
            faults: vec![0; N_FAULT_KINDS],
            probes: vec![0; N_PROBES],
            ..Default::default()
        }
    }
    fn add(&mut self, index: u64, case: &Case, ev: &Eval) {
        self.evaluations += ev.runs;
        self.cases += 1;
        self.ticks += ev.ticks;
        if ev.nontrivial {
            // (C13: the single-fault runs of a workload count as distinct only the first time
            // that workload is seen)
            let fp = case.fingerprint();
            self.nontrivial_fps.insert(fp);
            if ev.extra_nontrivial > 0 {
                self.extra_by_case.entry(fp).or_insert(ev.extra_nontrivial);
            }
            if self.samples.len() < 3 || index < self.samples.last().unwrap().0 {
                self.samples.push((index, case.clone()));
                self.samples.sort_by_key(|s| s.0);
                self.samples.truncate(3);
            }
        }
        self.signatures.insert(ev.signature);
        for i in 0..N_FAULT_KINDS {
            self.faults[i] += ev.faults[i] as u64;
        }
        for i in 0..N_PROBES {
            self.probes[i] += ev.probes[i] as u64;
        }
        if ev.validated {
            self.validated += 1;
        }
        if ev.unspecified {
            self.unspecified += 1;
        }
        if ev.corpus {
            self.corpus += 1;
        }
    }
    fn merge(&mut self, other: Stats) {
        self.evaluations += other.evaluations;
        self.cases += other.cases;
        self.ticks += other.ticks;
        self.nontrivial_fps.extend(other.nontrivial_fps);
        for (k, v) in other.extra_by_case {
            self.extra_by_case.entry(k).or_insert(v);
        }
        self.signatures.extend(other.signatures);
        for i in 0..N_FAULT_KINDS {
            self.faults[i] += other.faults[i];
        }
        for i in 0..N_PROBES {
            self.probes[i] += other.probes[i];
        }
        self.validated += other.validated;
        self.unspecified += other.unspecified;
        self.corpus += other.corpus;
        self.samples.extend(other.samples);
        self.samples.sort_by_key(|s| s.0);
        self.samples.truncate(3);
    }
}

pub struct Found {
    pub index: u64,
    pub case: Case,
    pub eval: Eval,
}

pub struct CheckResult {
    /// indices into `CheckOpts.known` of the listed findings that were met (with how often)
    pub known_hits: Vec<(usize, u64)>,
    pub violations: Vec<Found>,
    pub harness_errors: Vec<String>,
    pub evidence: J,
    pub determinism_mismatches: u64,
}

/// a finding listed in known_findings.txt: violations it matches are reported as
/// KNOWN-FINDING and do not stop the search
#[derive(Clone, Debug)]
pub struct Known {
    pub prop: String,
    pub oracle: String,
    pub needle: String,
    pub text: String,
}

impl Known {
    pub fn matches(&self, prop: Prop, v: &crate::oracle::Violation) -> bool {
        self.prop == prop.id() && self.oracle == v.oracle && v.detail.contains(&self.needle)
    }
}

/// the listed findings, for the minimiser (a candidate that turns the violation into a
/// listed one is not a smaller instance of the same violation)
pub static KNOWN: std::sync::OnceLock<Vec<Known>> = std::sync::OnceLock::new();

pub struct CheckOpts {
    pub known: Vec<Known>,
    /// where replay files go and how a violation line is spelled (needed by the memory
    /// watchdog, which has to report and exit on its own)
    pub replay_dir: String,
    pub found_line: bool,
    pub prop: Prop,
    pub tier: Tier,
    pub seed: u64,
    pub jobs: usize,
    pub runs: Option<u64>,
    pub profile: String,
    pub wall_limit: Duration,
}

/// watchdog state: per worker (run index + 1, started at)
struct Beat {
    index: AtomicU64,
    since: Mutex<Instant>,
    /// seconds of CPU this run may take (huge cases, e.g. 65536 live bindings, legitimately
    /// take half a minute because the library's variable store is a linear list)
    allow: AtomicU64,
    /// kernel thread id of the worker and its CPU time when the current run started
    tid: AtomicU64,
    cpu_start: AtomicU64,
}

pub fn check(opts: &CheckOpts) -> CheckResult {
    let total = opts.runs.unwrap_or_else(|| opts.prop.budget(opts.tier));
    let next = Arc::new(AtomicU64::new(0));
    let stop_above = Arc::new(AtomicU64::new(u64::MAX));
    let truncated = Arc::new(AtomicBool::new(false));
    let found: Arc<Mutex<Vec<Found>>> = Arc::new(Mutex::new(vec![]));
    let known: Arc<Vec<Known>> = Arc::new(opts.known.clone());
    let known_hits: Arc<Mutex<Vec<u64>>> = Arc::new(Mutex::new(vec![0; opts.known.len()]));
    let harness: Arc<Mutex<Vec<String>>> = Arc::new(Mutex::new(vec![]));
    let unreproducible: Arc<Mutex<Vec<String>>> = Arc::new(Mutex::new(vec![]));
    let started = Instant::now();
    let beats: Arc<Vec<Beat>> = Arc::new(
        (0..opts.jobs)
            .map(|_| Beat {
                index: AtomicU64::new(0),
                since: Mutex::new(Instant::now()),
                allow: AtomicU64::new(30),
                tid: AtomicU64::new(0),
                cpu_start: AtomicU64::new(0),
            })
            .collect(),
    );
    let done = Arc::new(AtomicBool::new(false));

    // watchdog: a single run that takes longer than 30 s (normal: well under 1 ms) is a hang
    let hang: Arc<Mutex<Option<u64>>> = Arc::new(Mutex::new(None));
    let wd = {
        let beats = beats.clone();
        let done = done.clone();
        let hang = hang.clone();
        let (prop, tier, seed) = (opts.prop, opts.tier, opts.seed);
        let (replay_dir, found_line, profile) =
            (opts.replay_dir.clone(), opts.found_line, opts.profile.clone());
        std::thread::spawn(move || {
            let limit = rss_limit();
            let mut n = 0u32;
            while !done.load(Ordering::Relaxed) {
                std::thread::sleep(Duration::from_millis(50));
                if rss_bytes() > limit {
                    // runaway allocation inside some simulated run: the run that has been
                    // going for the longest is the culprit; report it and get out at once
                    RUNAWAY.store(true, Ordering::SeqCst);
                    let victim = beats
                        .iter()
                        .filter(|b| b.index.load(Ordering::Relaxed) > 0)
                        .max_by_key(|b| b.since.lock().unwrap().elapsed())
                        .map(|b| b.index.load(Ordering::Relaxed) - 1);
                    if let Some(i) = victim {
                        let case = generate(prop, run_seed(seed, prop, i), tier);
                        let mut ev = evaluate_stub();
                        ev.violation = Some(crate::oracle::Violation {
                            oracle: "hang",
                            detail: format!(
                                "run {i} made the process grow beyond {} GB (runaway allocation; \
                                 every next() must return)",
                                limit >> 30
                            ),
                        });
                        let j = replay_json(prop, seed, i, &case, &case, &ev, 0, &profile);
                        let _ = std::fs::create_dir_all(&replay_dir);
                        let path = format!("{}/{}-{}-{}.json", replay_dir, prop.id(), seed, i);
                        let _ = std::fs::write(&path, j.to_pretty());
                        println!("  oracle hang: {}", ev.violation.as_ref().unwrap().detail);
                        if found_line {
                            println!("FOUND property={} replay={}", prop.id(), path);
                        } else {
                            println!("VIOLATION property={} replay={}", prop.id(), path);
                        }
                        std::process::exit(1);
                    }
                    eprintln!("HARNESS-ERROR memory limit exceeded with no simulated run in progress");
                    std::process::exit(2);
                }
                n += 1;
                if n % 10 != 0 {
                    continue;
                }
                for b in beats.iter() {
                    let idx = b.index.load(Ordering::Relaxed);
                    let allow = b.allow.load(Ordering::Relaxed);
                    if idx == 0 {
                        continue;
                    }
                    // CPU time consumed by this run (falls back to a very generous wall-clock
                    // limit where /proc is not available)
                    let tid = b.tid.load(Ordering::Relaxed);
                    let hung = match thread_cpu_ticks(tid) {
                        Some(now) => {
                            now.saturating_sub(b.cpu_start.load(Ordering::Relaxed)) > allow * 100
                        }
                        None => {
                            b.since.lock().unwrap().elapsed() > Duration::from_secs(allow * 20)
                        }
                    };
                    // a run may have finished between the two reads
                    if hung && b.index.load(Ordering::Relaxed) == idx {
                        *hang.lock().unwrap() = Some(idx - 1);
                        return;
                    }
                }
            }
        })
    };

    let mut handles = vec![];
    for w in 0..opts.jobs {
        let next = next.clone();
        let stop_above = stop_above.clone();
        let truncated = truncated.clone();
        let found = found.clone();
        let known = known.clone();
        let known_hits = known_hits.clone();
        let harness = harness.clone();
        let unreproducible = unreproducible.clone();
        let beats = beats.clone();
        let prop = opts.prop;
        let tier = opts.tier;
        let seed = opts.seed;
        let wall = opts.wall_limit;
        handles.push(
            std::thread::Builder::new()
                .stack_size(64 << 20)
                .spawn(move || {
                    let mut stats = Stats::new();
                    // the ordinary cases this worker thread ran last (newest last)
                    let mut recent: std::collections::VecDeque<Case> = Default::default();
                    let tid = my_tid();
                    beats[w].tid.store(tid, Ordering::Relaxed);
                    loop {
                        let i = next.fetch_add(1, Ordering::Relaxed);
                        if i >= total || i > stop_above.load(Ordering::Relaxed) {
                            break;
                        }
                        if i % 256 == 0 && started.elapsed() > wall {
                            truncated.store(true, Ordering::Relaxed);
                            break;
                        }
                        beats[w]
                            .cpu_start
                            .store(thread_cpu_ticks(tid).unwrap_or(0), Ordering::Relaxed);
                        *beats[w].since.lock().unwrap() = Instant::now();
                        beats[w].index.store(i + 1, Ordering::Relaxed);
                        let case = generate(prop, run_seed(seed, prop, i), tier);
                        let heavy = case.program.stmts.len() > 20_000;
                        // (DTR_SIM_HANG_CPU_SECS shortens the allowance; the sensitivity tooling
                        // uses it to get through deliberately hanging libraries faster)
                        let normal = std::env::var("DTR_SIM_HANG_CPU_SECS")
                            .ok()
                            .and_then(|s| s.parse::<u64>().ok())
                            .unwrap_or(30);
                        beats[w]
                            .allow
                            .store(if heavy { 1800 } else { normal }, Ordering::Relaxed);
                        let ev = evaluate(prop, &case);
                        beats[w].index.store(0, Ordering::Relaxed);
                        if let Some(h) = &ev.harness_error {
                            harness.lock().unwrap().push(format!("run {i}: {h}"));
                            stop_above.fetch_min(i, Ordering::Relaxed);
                            continue;
                        }
                        stats.add(i, &case, &ev);
                        if let Some(v) = &ev.violation {
                            // a listed finding is noted and the search goes on, so that a
                            // different violation of the same property is still found
                            if let Some(k) = known.iter().position(|k| k.matches(prop, v)) {
                                known_hits.lock().unwrap()[k] += 1;
                                continue;
                            }
                            // A simulated run must be a function of its case: the violation
                            // counts once it has been seen again on a fresh thread - as it
                            // is, or with cases this worker ran earlier as explicit prelude
                            // (state the library keeps per thread).
                            match confirm_isolated(prop, &case, v.oracle, &recent) {
                                Some((case, ev)) => {
                                    stop_above.fetch_min(i, Ordering::Relaxed);
                                    found.lock().unwrap().push(Found {
                                        index: i,
                                        case,
                                        eval: ev,
                                    });
                                }
                                None => {
                                    unreproducible.lock().unwrap().push(format!(
                                        "run {i}: {} ({})",
                                        v.oracle,
                                        v.detail.chars().take(200).collect::<String>()
                                    ));
                                }
                            }
                            continue;
                        }
                        if case.prelude.is_empty()
                            && case.thread_seed.is_none()
                            && case.program.stmts.len() <= 20_000
                        {
                            if recent.len() >= 6 {
                                recent.pop_front();
                            }
                            recent.push_back(case);
                        }
                    }
                    stats
                })
                .unwrap(),
        );
    }
    let mut stats = Stats::new();
    let mut hung = None;
    for h in handles {
        // a hung worker never joins: poll the watchdog
        loop {
            if h.is_finished() {
                stats.merge(h.join().unwrap());
                break;
            }
            if let Some(i) = *hang.lock().unwrap() {
                hung = Some(i);
                break;
            }
            std::thread::sleep(Duration::from_millis(5));
        }
        if hung.is_some() {
            break;
        }
    }
    done.store(true, Ordering::Relaxed);
    let _ = wd.join();

    let mut violations = std::mem::take(&mut *found.lock().unwrap());
    violations.sort_by_key(|f| f.index);
    if let Some(i) = hung {
        let case = generate(opts.prop, run_seed(opts.seed, opts.prop, i), opts.tier);
        let mut ev = evaluate_stub();
        ev.violation = Some(crate::oracle::Violation {
            oracle: "hang",
            detail: format!("run {i} consumed more than 30 s of CPU without finishing (every next() must return)"),
        });
        violations.insert(
            0,
            Found {
                index: i,
                case,
                eval: ev,
            },
        );
    }

    // determinism self-check: re-execute the first runs and compare log hashes
    let mut mismatches = 0;
    let recheck = 200.min(total);
    if violations.is_empty() {
        for i in 0..recheck {
            let c1 = generate(opts.prop, run_seed(opts.seed, opts.prop, i), opts.tier);
            let c2 = generate(opts.prop, run_seed(opts.seed, opts.prop, i), opts.tier);
            if c1 != c2 {
                mismatches += 1;
                continue;
            }
            let e1 = evaluate(opts.prop, &c1);
            let e2 = evaluate(opts.prop, &c2);
            if e1.log_hash != e2.log_hash || e1.signature != e2.signature {
                mismatches += 1;
            }
        }
    }

    let wall_s = started.elapsed().as_secs_f64();
    let evidence = evidence_json(
        opts,
        &stats,
        total,
        wall_s,
        truncated.load(Ordering::Relaxed),
        recheck,
        mismatches,
        violations.len(),
    );
    let mut harness_errors = std::mem::take(&mut *harness.lock().unwrap());
    {
        // violations that could not be reproduced in isolation are no verdict about the
        // property; if nothing reproducible was found either, they are a harness error
        let un = std::mem::take(&mut *unreproducible.lock().unwrap());
        if !un.is_empty() && violations.is_empty() {
            harness_errors.push(format!(
                "{} violation(s) seen on worker threads did not reproduce on a fresh thread, not \
                 even with the worker's recent cases as prelude (the library's behaviour depends \
                 on something outside the case); first: {}",
                un.len(),
                un[0]
            ));
        }
    }
    let known_hits: Vec<(usize, u64)> = known_hits
        .lock()
        .unwrap()
        .iter()
        .enumerate()
        .filter(|(_, n)| **n > 0)
        .map(|(i, n)| (i, *n))
        .collect();
    CheckResult {
        known_hits,
        violations,
        harness_errors,
        evidence,
        determinism_mismatches: mismatches,
    }
}

/// scan of the library source for constructs that would invalidate the single-threaded /
/// no-hidden-state premise (DESIGN.md section 3); reported in the C15 evidence
fn premise_scan() -> J {
    let dir = format!("{}/src", crate::corpus::repo_dir());
    let needles = [
        "static ",
        "thread_local",
        "Atomic",
        "unsafe",
        "Cell<",
        "Mutex",
        "RwLock",
        "OnceLock",
        "OnceCell",
        "lazy_static",
        "std::env",
        "SystemTime",
        "Instant",
    ];
    let mut found = vec![];
    let mut files = vec![];
    fn walk(dir: &str, out: &mut Vec<String>) {
        if let Ok(rd) = std::fs::read_dir(dir) {
            let mut entries: Vec<_> = rd.filter_map(|e| e.ok()).collect();
            entries.sort_by_key(|e| e.file_name());
            for e in entries {
                let p = e.path();
                if p.is_dir() {
                    walk(&p.to_string_lossy(), out);
                } else if p.extension().map(|x| x == "rs").unwrap_or(false) {
                    out.push(p.to_string_lossy().to_string());
                }
            }
        }
    }
    walk(&dir, &mut files);
    for f in &files {
        if f.ends_with("verif_hooks.rs") {
            continue;
        }
        let Ok(text) = std::fs::read_to_string(f) else { continue };
        for (n, line) in text.lines().enumerate() {
            let t = line.trim_start();
            if t.starts_with("//") {
                continue;
            }
            if let Some(needle) = needles.iter().find(|nd| line.contains(**nd)) {
                // `&'static str` and `'static` lifetimes are not state
                if *needle == "static " && !t.contains("static ref") && !t.starts_with("static ")
                    && !t.starts_with("pub static ") && !t.starts_with("pub(crate) static ")
                {
                    continue;
                }
                found.push(J::s(format!(
                    "{}:{}: {}",
                    f.trim_start_matches(&dir).trim_start_matches('/'),
                    n + 1,
                    t
                )));
            }
        }
    }
    J::obj()
        .set("files_scanned", J::u(files.len()))
        .set(
            "expected",
            J::s("only the per-iterator RefCell<StdRng> in eval_context.rs (owned by each DataRowIterator's EvalContext, not reachable from TestCase)"),
        )
        .set("occurrences", J::Arr(found))
}

fn evaluate_stub() -> Eval {
    // an Eval with nothing in it (used for hang reports)
    let case = Case {
        signals: vec![SigSpec {
            name: "A".into(),
            bits: 1,
            kind: SigKind::In,
            default: InVal::Num(0),
        }],
        program: Program {
            header: vec!["A".into()],
            stmts: vec![Stmt::Row(vec![Entry::Num(0)])],
        },
        duts: vec![crate::dut::DutSpec {
            layout: vec![],
            seed: 0,
            overrides_write: false,
            in_place: false,
            alternate_memory: false,
            hold: 1,
            faults: vec![],
        }],
        schedule: vec![],
        entropy: vec![0],
        hash_seed: 0,
        reparse: vec![],
        run_static: false,
        static_first: false,
        inspect: None,
        max_steps: 1,
        continue_after_error: false,
        source_override: None,
        dig_file: None,
        thread_seed: None,
        prelude: vec![],
    };
    evaluate(Prop::C02, &case)
}

#[allow(clippy::too_many_arguments)]
fn evidence_json(
    opts: &CheckOpts,
    stats: &Stats,
    planned: u64,
    wall_s: f64,
    truncated: bool,
    recheck: u64,
    mismatches: u64,
    violations: usize,
) -> J {
    let prop = opts.prop;
    let distinct = if prop == Prop::C13 {
        stats.extra_by_case.values().sum::<u64>()
    } else {
        stats.nontrivial_fps.len() as u64
    };
    let mut faults = J::obj();
    for i in 1..N_FAULT_KINDS {
        faults.put(FAULT_NAMES[i], J::i(stats.faults[i] as i64));
    }
    let mut probes = J::obj();
    let mut zero = vec![];
    for i in 0..N_PROBES {
        probes.put(PROBE_NAMES[i], J::i(stats.probes[i] as i64));
        if stats.probes[i] == 0 {
            zero.push(J::s(PROBE_NAMES[i]));
        }
    }
    let samples = J::arr(&stats.samples, |(idx, case)| {
        J::obj()
            .set("run_index", J::i(*idx))
            .set("run_seed", J::i(run_seed(opts.seed, prop, *idx)))
            .set("source", J::s(case.source_text()))
            .set("signals", J::arr(&case.signals, |s| s.to_json()))
            .set("duts", J::arr(&case.duts, |d| d.to_json()))
            .set(
                "schedule_len",
                J::u(case.schedule.len()),
            )
    });
    let runs_per_hour = if wall_s > 0.0 {
        (stats.evaluations as f64 / wall_s * 3600.0) as i64
    } else {
        0
    };
    let coverage = J::obj()
        .set("evaluations", J::i(stats.evaluations as i64))
        .set("distinct_nontrivial", J::i(distinct as i64))
        .set("rule", J::s(prop.rule()))
        .set("samples", samples)
        .set("generated_cases", J::i(stats.cases as i64))
        .set("planned_cases", J::i(planned as i64))
        .set("runs_per_hour", J::i(runs_per_hour))
        .set("simulated_ticks", J::i(stats.ticks as i64))
        .set(
            "simulated_time_note",
            J::s("the library has no clock; logical time = driver calls (ticks)"),
        )
        .set("fault_kinds_fired", faults)
        .set(
            "probes",
            if matches!(prop, Prop::C13 | Prop::C15) {
                // these two families judge histories only (fault-free vs faulted run, solo vs
                // interleaved run); no reference run, hence no semantic probes
                J::obj().set(
                    "note",
                    J::s("not collected: the oracles of this family are history-only, no reference run is made; reach is reported by fault_kinds_fired and behaviour_signatures"),
                )
            } else {
                probes
            },
        )
        .set(
            "probes_at_zero",
            if matches!(prop, Prop::C13 | Prop::C15) {
                J::Arr(vec![])
            } else {
                J::Arr(zero)
            },
        )
        .set("behaviour_signatures", J::u(stats.signatures.len()))
        .set(
            "traces_validated_against_impl",
            J::i(stats.validated as i64),
        )
        .set("runs_cut_short_as_unspecified", J::i(stats.unspecified as i64))
        .set(
            "corpus",
            J::obj()
                .set("cases_from_repository_dig_fixtures", J::i(stats.corpus as i64))
                .set(
                    "fixture_tests_available",
                    J::u(crate::corpus::corpus().tests.len()),
                )
                .set(
                    "fixtures_skipped",
                    J::arr(&crate::corpus::corpus().skipped, |s| J::s(s.clone())),
                ),
        )
        .set("profile", J::s(opts.profile.clone()))
        .set(
            "determinism_selfcheck",
            J::obj()
                .set("runs", J::i(recheck as i64))
                .set("mismatches", J::i(mismatches as i64)),
        )
        .set(
            "components",
            J::obj()
                .set(
                    "real",
                    J::s("lexer, parser, ParsedTestCase::from_str/with_signals, TestCase::try_iter/try_iter_static, StmtIterator, DataRowIterator::{next,vars}, EvalContext, FramedMap, Expr::eval, rand::StdRng (seed injected), TestDriver::write_input default method, value checks, error types"),
                )
                .set(
                    "stub",
                    J::s("device under test (SimDut: seeded pure answer function + fault plan), caller/scheduler, entropy source, hash iteration order"),
                ),
        )
        .set(
            "premise_scan",
            if prop == Prop::C15 {
                premise_scan()
            } else {
                J::Null
            },
        )
        .set("truncated_by_wall_clock", J::Bool(truncated))
        .set("workers", J::u(opts.jobs))
        .set("exhaustive", J::Bool(false));
    J::obj()
        .set("property_id", J::s(prop.id()))
        .set(
            "tier",
            J::s(match opts.tier {
                Tier::Quick => "quick",
                Tier::Thorough => "thorough",
            }),
        )
        .set("seed", J::i(opts.seed))
        .set("level", J::s(prop.level()))
        .set("coverage", coverage)
        .set(
            "assumptions",
            J::Arr(vec![
                J::s("reference model = DESIGN.md section 4 (sequential interpreter on the generating AST)"),
                J::s("the simulated DUT is a pure function of (seed, call index, received inputs), so the reference can drive its own instance"),
                J::s("single-threaded premise: the crate has no threads, statics or interior mutability reachable from TestCase (DESIGN.md section 3)"),
                J::s("sampling, not enumeration: a clean batch is evidence, not proof"),
            ]),
        )
        .set("wall_s", J::Float((wall_s * 1000.0).round() / 1000.0))
        .set("violations", J::u(violations))
}

// ---------------------------------------------------------------------------------------
// minimisation

/// Evaluate a case on a helper thread; a case that does not finish in time is reported as a
/// violation of bounded liveness (oracle `hang`). The helper thread cannot be killed and is
/// abandoned (the process exits soon after a violation has been reported).
pub fn evaluate_guarded(prop: Prop, case: &Case, timeout: Duration) -> Eval {
    let (tx, rx) = std::sync::mpsc::channel();
    let (tid_tx, tid_rx) = std::sync::mpsc::channel();
    let c = case.clone();
    let spawned = std::thread::Builder::new()
        .stack_size(64 << 20)
        .spawn(move || {
            let _ = tid_tx.send(my_tid());
            let _ = tx.send(evaluate(prop, &c));
        });
    if spawned.is_err() {
        return evaluate(prop, case);
    }
    let started = Instant::now();
    let limit = rss_limit();
    let tid = tid_rx.recv_timeout(Duration::from_secs(60)).unwrap_or(0);
    loop {
        match rx.recv_timeout(Duration::from_millis(50)) {
            Ok(ev) => return ev,
            Err(std::sync::mpsc::RecvTimeoutError::Disconnected) => {
                let mut ev = evaluate_stub();
                ev.harness_error = Some("evaluation thread died".into());
                return ev;
            }
            Err(std::sync::mpsc::RecvTimeoutError::Timeout) => {}
        }
        let runaway = rss_bytes() > limit;
        if runaway {
            RUNAWAY.store(true, Ordering::SeqCst);
        }
        // the time limit is CPU time of the evaluating thread (wall clock, very generously,
        // only where /proc is not available)
        let timed_out = match thread_cpu_ticks(tid) {
            Some(ticks) => ticks > timeout.as_secs() * 100,
            None => started.elapsed() > timeout * 20,
        };
        if runaway || timed_out {
            let mut ev = evaluate_stub();
            ev.violation = Some(crate::oracle::Violation {
                oracle: "hang",
                detail: if runaway {
                    format!(
                        "the simulated run made the process grow beyond {} GB (runaway \
                         allocation; every next() must return)",
                        limit >> 30
                    )
                } else {
                    format!(
                        "the simulated run consumed more than {} s of CPU without finishing (every next() must return)",
                        timeout.as_secs()
                    )
                },
            });
            return ev;
        }
    }
}

/// Re-runs a case that violated on a worker thread on a fresh thread. Returns the case that
/// reproduces the violation there (the case itself, or the case with earlier cases of the
/// same worker as prelude) with its evaluation, or `None`.
fn confirm_isolated(
    prop: Prop,
    case: &Case,
    oracle: &str,
    recent: &std::collections::VecDeque<Case>,
) -> Option<(Case, Eval)> {
    let secs = Duration::from_secs(30);
    let same = |ev: &Eval| {
        ev.harness_error.is_none()
            && ev.violation.as_ref().map(|v| v.oracle == oracle).unwrap_or(false)
    };
    let ev = evaluate_guarded(prop, case, secs);
    if same(&ev) {
        return Some((case.clone(), ev));
    }
    if !case.prelude.is_empty() || case.thread_seed.is_some() {
        // such a case ran on a fresh thread in the first place
        return None;
    }
    for prev in recent.iter().rev() {
        let mut c = case.clone();
        c.prelude = vec![prev.clone()];
        let ev = evaluate_guarded(prop, &c, secs);
        if same(&ev) {
            return Some((c, ev));
        }
    }
    let mut c = case.clone();
    c.prelude = recent.iter().cloned().collect();
    let ev = evaluate_guarded(prop, &c, secs);
    if same(&ev) {
        return Some((c, ev));
    }
    None
}

fn same_violation(prop: Prop, case: &Case, oracle: &str, budget: &mut u32) -> bool {
    if *budget == 0 {
        return false;
    }
    *budget -= 1;
    let ev = evaluate_guarded(prop, case, Duration::from_secs(if oracle == "hang" { 3 } else { 10 }));
    ev.harness_error.is_none()
        && ev
            .violation
            .as_ref()
            .map(|v| {
                v.oracle == oracle
                    && !KNOWN
                        .get()
                        .map(|ks| ks.iter().any(|k| k.matches(prop, v)))
                        .unwrap_or(false)
            })
            .unwrap_or(false)
}

/// all single-step simplifications of a statement list
fn stmt_variants(stmts: &[Stmt]) -> Vec<Vec<Stmt>> {
    let mut out = vec![];
    for i in 0..stmts.len() {
        // delete statement i
        let mut v = stmts.to_vec();
        v.remove(i);
        out.push(v);
        match &stmts[i] {
            Stmt::Loop(var, bound, body) => {
                // replace the loop by its body (unroll once)
                let mut v = stmts.to_vec();
                v.splice(i..=i, body.iter().cloned());
                out.push(v);
                // shrink the bound
                for nb in expr_variants(bound) {
                    let mut v = stmts.to_vec();
                    v[i] = Stmt::Loop(var.clone(), nb, body.clone());
                    out.push(v);
                }
                for nbody in stmt_variants(body) {
                    let mut v = stmts.to_vec();
                    v[i] = Stmt::Loop(var.clone(), bound.clone(), nbody);
                    out.push(v);
                }
            }
            Stmt::While(cond, body) => {
                let mut v = stmts.to_vec();
                v.splice(i..=i, body.iter().cloned());
                out.push(v);
                for nbody in stmt_variants(body) {
                    let mut v = stmts.to_vec();
                    v[i] = Stmt::While(cond.clone(), nbody);
                    out.push(v);
                }
            }
            Stmt::Repeat(bound, entries) => {
                let mut v = stmts.to_vec();
                v[i] = Stmt::Row(entries.clone());
                out.push(v);
                for nb in expr_variants(bound) {
                    let mut v = stmts.to_vec();
                    v[i] = Stmt::Repeat(nb, entries.clone());
                    out.push(v);
                }
                for ne in entries_variants(entries) {
                    let mut v = stmts.to_vec();
                    v[i] = Stmt::Repeat(bound.clone(), ne);
                    out.push(v);
                }
            }
            Stmt::Row(entries) => {
                for ne in entries_variants(entries) {
                    let mut v = stmts.to_vec();
                    v[i] = Stmt::Row(ne);
                    out.push(v);
                }
            }
            Stmt::Let(name, e) => {
                for ne in expr_variants(e) {
                    let mut v = stmts.to_vec();
                    v[i] = Stmt::Let(name.clone(), ne);
                    out.push(v);
                }
            }
            Stmt::Declare(name, e) => {
                for ne in expr_variants(e) {
                    let mut v = stmts.to_vec();
                    v[i] = Stmt::Declare(name.clone(), ne);
                    out.push(v);
                }
            }
            Stmt::ResetRandom => {}
        }
    }
    out
}

fn entries_variants(entries: &[Entry]) -> Vec<Vec<Entry>> {
    let mut out = vec![];
    for i in 0..entries.len() {
        let simpler: Vec<Entry> = match &entries[i] {
            Entry::Num(0) => vec![],
            Entry::Num(_) => vec![Entry::Num(0)],
            Entry::Expr(e) => {
                let mut v = vec![Entry::Num(0)];
                v.extend(expr_variants(e).into_iter().map(Entry::Expr));
                v
            }
            Entry::Bits(k, e) => {
                let mut v: Vec<Entry> = vec![];
                if *k == 1 {
                    v.push(Entry::Num(0));
                }
                v.extend(expr_variants(e).into_iter().map(|x| Entry::Bits(*k, x)));
                v
            }
            Entry::X | Entry::Z | Entry::C => vec![Entry::Num(0)],
        };
        for s in simpler {
            let mut v = entries.to_vec();
            v[i] = s;
            out.push(v);
        }
    }
    out
}

fn expr_variants(e: &Expr) -> Vec<Expr> {
    let mut out = vec![];
    match e {
        Expr::Num(0) => {}
        Expr::Num(1) => out.push(Expr::Num(0)),
        Expr::Num(n) => {
            out.push(Expr::Num(0));
            out.push(Expr::Num(1));
            out.push(Expr::Num(n / 2));
        }
        Expr::Id(_) => out.push(Expr::Num(0)),
        Expr::Un(op, a) => {
            out.push((**a).clone());
            for x in expr_variants(a) {
                out.push(Expr::un(*op, x));
            }
        }
        Expr::Bin(op, a, b) => {
            out.push((**a).clone());
            out.push((**b).clone());
            for x in expr_variants(a) {
                out.push(Expr::bin(*op, x, (**b).clone()));
            }
            for x in expr_variants(b) {
                out.push(Expr::bin(*op, (**a).clone(), x));
            }
        }
        Expr::Ite(c, a, b) => {
            out.push((**a).clone());
            out.push((**b).clone());
            out.push((**c).clone());
            for x in expr_variants(c) {
                out.push(Expr::ite(x, (**a).clone(), (**b).clone()));
            }
            for x in expr_variants(a) {
                out.push(Expr::ite((**c).clone(), x, (**b).clone()));
            }
            for x in expr_variants(b) {
                out.push(Expr::ite((**c).clone(), (**a).clone(), x));
            }
        }
        Expr::Random(a) => {
            out.push((**a).clone());
            for x in expr_variants(a) {
                out.push(Expr::random(x));
            }
        }
        Expr::SignExt(a, b) => {
            out.push((**a).clone());
            out.push((**b).clone());
        }
    }
    out
}

/// drop header column `col` (and the matching entry of every row); None if a bits() entry
/// spans it
fn drop_column(p: &Program, col: usize) -> Option<Program> {
    fn fix(entries: &[Entry], col: usize) -> Option<Vec<Entry>> {
        let mut c = 0;
        let mut out = vec![];
        let mut done = false;
        for e in entries {
            let w = e.width();
            if !done && c == col && w == 1 {
                done = true;
            } else if !done && c <= col && col < c + w {
                return None;
            } else {
                out.push(e.clone());
            }
            c += w;
        }
        if done {
            Some(out)
        } else {
            None
        }
    }
    fn walk(stmts: &[Stmt], col: usize) -> Option<Vec<Stmt>> {
        stmts
            .iter()
            .map(|s| {
                Some(match s {
                    Stmt::Row(e) => Stmt::Row(fix(e, col)?),
                    Stmt::Repeat(b, e) => Stmt::Repeat(b.clone(), fix(e, col)?),
                    Stmt::Loop(v, b, body) => Stmt::Loop(v.clone(), b.clone(), walk(body, col)?),
                    Stmt::While(c, body) => Stmt::While(c.clone(), walk(body, col)?),
                    other => other.clone(),
                })
            })
            .collect()
    }
    if p.header.len() <= 1 {
        return None;
    }
    let mut header = p.header.clone();
    header.remove(col);
    Some(Program {
        header,
        stmts: walk(&p.stmts, col)?,
    })
}

fn case_variants(case: &Case) -> Vec<Case> {
    let mut out = vec![];
    // statements
    for stmts in stmt_variants(&case.program.stmts) {
        let mut c = case.clone();
        c.program.stmts = stmts;
        out.push(c);
    }
    // columns
    for col in 0..case.program.header.len() {
        if let Some(p) = drop_column(&case.program, col) {
            let mut c = case.clone();
            c.program = p;
            out.push(c);
        }
    }
    // signals the header does not mention
    for i in 0..case.signals.len() {
        if case.signals.len() <= 1 {
            break;
        }
        let name = &case.signals[i].name;
        let in_header = case
            .program
            .header
            .iter()
            .any(|h| h == name || *h == format!("{name}_out"));
        if in_header {
            continue;
        }
        let mut c = case.clone();
        c.signals.remove(i);
        for d in &mut c.duts {
            d.layout.retain(|(s, _)| s.name != *name);
        }
        out.push(c);
    }
    // signal details
    for i in 0..case.signals.len() {
        let s = &case.signals[i];
        if s.bits > 1 {
            for nb in [1, 8] {
                if nb < s.bits {
                    let mut c = case.clone();
                    c.signals[i].bits = nb;
                    for d in &mut c.duts {
                        for (ls, _) in d.layout.iter_mut() {
                            if ls.name == s.name {
                                ls.bits = nb;
                            }
                        }
                    }
                    out.push(c);
                }
            }
        }
        if s.is_input() && s.default != InVal::Num(0) {
            let mut c = case.clone();
            c.signals[i].default = InVal::Num(0);
            for d in &mut c.duts {
                for (ls, _) in d.layout.iter_mut() {
                    if ls.name == s.name {
                        ls.default = InVal::Num(0);
                    }
                }
            }
            out.push(c);
        }
    }
    // DUT
    for di in 0..case.duts.len() {
        let d = &case.duts[di];
        for fi in 0..d.faults.len() {
            let mut c = case.clone();
            c.duts[di].faults.remove(fi);
            out.push(c);
            if d.faults[fi].at_call > 0 {
                let mut c = case.clone();
                c.duts[di].faults[fi].at_call -= 1;
                out.push(c);
            }
            if let FaultKind::Value(p, v) = &d.faults[fi].kind {
                if *v != OutVal::Num(0) {
                    let mut c = case.clone();
                    c.duts[di].faults[fi].kind = FaultKind::Value(*p, OutVal::Num(0));
                    out.push(c);
                }
            }
        }
        for li in 0..d.layout.len() {
            let mut c = case.clone();
            c.duts[di].layout.remove(li);
            c.duts[di].faults.clear();
            out.push(c);
            let simpler: Vec<SigBeh> = match &d.layout[li].1 {
                SigBeh::Const(OutVal::Num(0)) => vec![],
                SigBeh::Const(_) => vec![SigBeh::Const(OutVal::Num(0))],
                SigBeh::Tagged => vec![SigBeh::Const(OutVal::Num(0)), SigBeh::Counter(0, 1)],
                _ => vec![
                    SigBeh::Const(OutVal::Num(0)),
                    SigBeh::Const(OutVal::Num(1)),
                    SigBeh::Tagged,
                ],
            };
            for b in simpler {
                let mut c = case.clone();
                c.duts[di].layout[li].1 = b;
                out.push(c);
            }
        }
        if d.in_place {
            let mut c = case.clone();
            c.duts[di].in_place = false;
            out.push(c);
        }
        if d.alternate_memory {
            let mut c = case.clone();
            c.duts[di].alternate_memory = false;
            out.push(c);
        }
        if d.hold > 1 {
            let mut c = case.clone();
            c.duts[di].hold = 1;
            out.push(c);
        }
        if d.overrides_write {
            let mut c = case.clone();
            c.duts[di].overrides_write = false;
            out.push(c);
        }
    }
    if case.duts.len() > 1 {
        let mut c = case.clone();
        let last = (c.duts.len() - 1) as u8;
        c.duts.pop();
        c.entropy.truncate(c.duts.len());
        c.schedule.retain(|a| {
            !matches!(a, Action::Construct(i) | Action::Next(i) | Action::Run(i)
                | Action::Vars(i) | Action::DropIt(i) if *i == last)
        });
        out.push(c);
    }
    // schedule
    if case.schedule.len() > 2 {
        let mut c = case.clone();
        c.schedule.truncate(case.schedule.len() / 2);
        out.push(c);
        for i in 0..case.schedule.len().min(40) {
            let mut c = case.clone();
            c.schedule.remove(i);
            out.push(c);
        }
    }
    if case.inspect.is_some() {
        let mut c = case.clone();
        c.inspect = None;
        out.push(c);
    }
    if case.thread_seed.is_some() {
        let mut c = case.clone();
        c.thread_seed = None;
        out.push(c);
    }
    if !case.prelude.is_empty() {
        let mut c = case.clone();
        c.prelude.pop();
        out.push(c);
        // a smaller history: the earlier test run by a single-threaded caller, with a
        // schedule that simply runs it to the end
        for (i, p) in case.prelude.iter().enumerate() {
            if p.thread_seed.is_some() {
                let mut c = case.clone();
                c.prelude[i].thread_seed = None;
                out.push(c);
            }
        }
    }
    if !case.reparse.is_empty() {
        let mut c = case.clone();
        c.reparse.pop();
        out.push(c);
    }
    if case.run_static {
        let mut c = case.clone();
        c.run_static = false;
        out.push(c);
    }
    out
}

/// structurally valid? (row widths match the header; the rest is judged by the library's
/// own load step: a candidate the library rejects simply does not reproduce the violation,
/// except for the `*.accept` oracles which are never minimised across validity)
fn plausible(case: &Case) -> bool {
    fn ok(stmts: &[Stmt], w: usize) -> bool {
        stmts.iter().all(|s| match s {
            Stmt::Row(e) | Stmt::Repeat(_, e) => e.iter().map(|x| x.width()).sum::<usize>() == w,
            Stmt::Loop(_, _, b) | Stmt::While(_, b) => ok(b, w),
            _ => true,
        })
    }
    !case.program.header.is_empty()
        && !case.signals.is_empty()
        && ok(&case.program.stmts, case.program.header.len())
}

/// while loops must keep a direct row in their body and their counter update, otherwise a
/// candidate could spin forever; keep it simple: never accept a candidate whose `while`
/// bodies lost their last `let` or all direct rows
fn whiles_intact(before: &Case, after: &Case) -> bool {
    fn sigs(stmts: &[Stmt], out: &mut Vec<(usize, usize)>) {
        for s in stmts {
            match s {
                Stmt::While(_, b) => {
                    let rows = b.iter().filter(|x| matches!(x, Stmt::Row(_))).count();
                    let lets = b.iter().filter(|x| matches!(x, Stmt::Let(..))).count();
                    out.push((rows.min(1), lets));
                    sigs(b, out);
                }
                Stmt::Loop(_, _, b) => sigs(b, out),
                _ => {}
            }
        }
    }
    let (mut a, mut b) = (vec![], vec![]);
    sigs(&before.program.stmts, &mut a);
    sigs(&after.program.stmts, &mut b);
    // every while that survives must still have a direct row; the number of lets in while
    // bodies may only shrink together with the while itself
    b.iter().all(|(rows, _)| *rows == 1) && {
        let la: usize = a.iter().map(|x| x.1).sum();
        let lb: usize = b.iter().map(|x| x.1).sum();
        b.len() < a.len() || lb == la
    }
}

pub fn shrink(prop: Prop, case: &Case, oracle: &str) -> (Case, u32) {
    let mut best = case.clone();
    let mut budget = 2000u32;
    let mut initial = budget;
    if best.program.stmts.len() > 20_000 {
        // a huge-environment case: every evaluation takes half a minute; reported as it is
        return (best, 0);
    }
    if oracle.ends_with(".accept") {
        return (best, 0);
    }
    if oracle == "hang" {
        // every candidate that still hangs costs its full timeout
        budget = 60;
        initial = budget;
    }
    loop {
        let mut improved = false;
        for cand in case_variants(&best) {
            if budget == 0 || RUNAWAY.load(Ordering::SeqCst) {
                budget = 0;
                break;
            }
            if !plausible(&cand) || !whiles_intact(&best, &cand) {
                continue;
            }
            if same_violation(prop, &cand, oracle, &mut budget) {
                best = cand;
                improved = true;
                break;
            }
        }
        if !improved || budget == 0 {
            break;
        }
    }
    (best, initial - budget)
}

// ---------------------------------------------------------------------------------------
// replay files

pub fn replay_json(
    prop: Prop,
    seed: u64,
    index: u64,
    original: &Case,
    minimised: &Case,
    ev: &Eval,
    shrink_runs: u32,
    profile: &str,
) -> J {
    let viol = ev.violation.as_ref().unwrap();
    J::obj()
        .set("property", J::s(prop.id()))
        .set("oracle", J::s(viol.oracle))
        .set("detail", J::s(viol.detail.clone()))
        .set("verif_seed", J::i(seed))
        .set("run_index", J::i(index))
        .set("run_seed", J::i(run_seed(seed, prop, index)))
        .set("profile", J::s(profile))
        .set("shrink_candidate_runs", J::i(shrink_runs as i64))
        .set("case", minimised.to_json())
        .set("original_source", J::s(original.source_text()))
}

pub struct ReplayOutcome {
    pub prop: Prop,
    pub expected_oracle: String,
    pub eval: Eval,
}

pub fn replay(path: &str) -> Result<ReplayOutcome, String> {
    let text = std::fs::read_to_string(path).map_err(|e| format!("{path}: {e}"))?;
    let j = json::parse(&text)?;
    let prop = Prop::from_id(j.req("property")?.as_str()?).ok_or("unknown property")?;
    let case = Case::from_json(j.req("case")?)?;
    let expected = j.req("oracle")?.as_str()?;
    let eval = evaluate_guarded(
        prop,
        &case,
        Duration::from_secs(if expected == "hang" { 10 } else { 120 }),
    );
    Ok(ReplayOutcome {
        prop,
        expected_oracle: j.req("oracle")?.as_str()?.to_string(),
        eval,
    })
}
