//! dtr-sim: deterministic simulation of digital_test_runner against a simulated device, a
//! simulated caller, injected entropy and injected hash order. See /verif/DESIGN.md.

mod case;
mod corpus;
mod dut;
mod engine;
mod family;
mod gen;
mod json;
mod model;
mod oracle;
mod reference;
mod rng;
mod run;
mod selftest;

use engine::{CheckOpts, DEFAULT_SEED};
use family::{Prop, Tier, ALL_PROPS};
use json::J;
use std::time::Duration;

fn usage() -> ! {
    eprintln!(
        "usage:\n  dtr-sim check <C01|...> [--tier quick|thorough] [--seed N] [--jobs N] [--runs N]\n               [--profile NAME] [--evidence FILE] [--replay-dir DIR] [--known FILE] [--append-evidence]\n  dtr-sim replay <file>\n  dtr-sim show <PROP> <run index> [--seed N] [--tier T]\n  dtr-sim hashes <PROP> [--runs N] [--seed N] [--jobs N]\n  dtr-sim selftest"
    );
    std::process::exit(2)
}

struct Args {
    pos: Vec<String>,
    opts: Vec<(String, String)>,
    flags: Vec<String>,
}

fn parse_args() -> Args {
    let mut pos = vec![];
    let mut opts = vec![];
    let mut flags = vec![];
    let mut it = std::env::args().skip(1);
    while let Some(a) = it.next() {
        if let Some(name) = a.strip_prefix("--") {
            match name {
                "append-evidence" | "no-shrink" | "verbose" | "found-line" => {
                    flags.push(name.to_string())
                }
                _ => {
                    let Some(v) = it.next() else { usage() };
                    opts.push((name.to_string(), v));
                }
            }
        } else {
            pos.push(a);
        }
    }
    Args { pos, opts, flags }
}

impl Args {
    fn opt(&self, name: &str) -> Option<&str> {
        self.opts
            .iter()
            .find(|(n, _)| n == name)
            .map(|(_, v)| v.as_str())
    }
    fn flag(&self, name: &str) -> bool {
        self.flags.iter().any(|f| f == name)
    }
}

fn parse_u64(s: &str) -> u64 {
    let r = if let Some(h) = s.strip_prefix("0x") {
        u64::from_str_radix(h, 16)
    } else {
        s.parse::<u64>()
    };
    match r {
        Ok(v) => v,
        Err(_) => {
            eprintln!("bad number {s:?}");
            std::process::exit(2)
        }
    }
}

fn seed_from(args: &Args) -> u64 {
    if let Some(s) = args.opt("seed") {
        return parse_u64(s);
    }
    match std::env::var("VERIF_SEED") {
        Ok(s) if !s.trim().is_empty() => parse_u64(s.trim()),
        _ => DEFAULT_SEED,
    }
}

fn tier_from(args: &Args) -> Tier {
    let t = args
        .opt("tier")
        .map(|s| s.to_string())
        .or_else(|| std::env::var("VERIF_TIER").ok())
        .unwrap_or_else(|| "quick".into());
    match t.as_str() {
        "thorough" => Tier::Thorough,
        _ => Tier::Quick,
    }
}

/// known findings: lines `known: property=<id> oracle=<oracle> match=<substring of detail> | <text>`
fn load_known(path: Option<&str>) -> Vec<engine::Known> {
    let Some(path) = path else { return vec![] };
    let Ok(text) = std::fs::read_to_string(path) else {
        return vec![];
    };
    let mut out = vec![];
    for line in text.lines() {
        let Some(rest) = line.strip_prefix("known:") else { continue };
        let (fields, text) = rest.split_once('|').unwrap_or((rest, ""));
        let mut k = engine::Known {
            prop: String::new(),
            oracle: String::new(),
            needle: String::new(),
            text: text.trim().to_string(),
        };
        // match= takes the rest of the field part
        let fields = fields.trim();
        let (head, needle) = fields.split_once("match=").unwrap_or((fields, ""));
        k.needle = needle.trim().to_string();
        for f in head.split_whitespace() {
            if let Some(v) = f.strip_prefix("property=") {
                k.prop = v.to_string();
            } else if let Some(v) = f.strip_prefix("oracle=") {
                k.oracle = v.to_string();
            }
        }
        if !k.prop.is_empty() && !k.oracle.is_empty() && !k.needle.is_empty() {
            out.push(k);
        }
    }
    out
}

fn cmd_check(args: &Args) -> i32 {
    let Some(prop) = args.pos.get(1).and_then(|s| Prop::from_id(s)) else {
        usage()
    };
    let tier = tier_from(args);
    let seed = seed_from(args);
    let jobs = args
        .opt("jobs")
        .map(|s| parse_u64(s) as usize)
        .unwrap_or_else(|| {
            std::thread::available_parallelism()
                .map(|n| n.get())
                .unwrap_or(4)
                .min(16)
        })
        .max(1);
    let profile = args.opt("profile").unwrap_or("simdev").to_string();
    let known = load_known(args.opt("known"));
    let replay_dir = args.opt("replay-dir").unwrap_or("/verif/replays").to_string();
    let _ = engine::KNOWN.set(known.clone());
    let opts = CheckOpts {
        known: known.clone(),
        replay_dir: replay_dir.clone(),
        found_line: args.flag("found-line"),
        prop,
        tier,
        seed,
        jobs,
        runs: args.opt("runs").map(parse_u64),
        profile: profile.clone(),
        wall_limit: Duration::from_secs(match tier {
            Tier::Quick => 600,
            Tier::Thorough => 3 * 3600,
        }),
    };
    println!(
        "dtr-sim check {} tier={:?} VERIF_SEED={} jobs={} profile={}",
        prop.id(),
        tier,
        seed,
        jobs,
        profile
    );
    let res = engine::check(&opts);

    // evidence
    if let Some(path) = args.opt("evidence") {
        let mut ev = res.evidence.clone();
        if args.flag("append-evidence") {
            // second profile of a thorough run: merge the counts into the existing file
            if let Ok(text) = std::fs::read_to_string(path) {
                if let Ok(old) = json::parse(&text) {
                    ev = merge_evidence(old, ev);
                }
            }
        }
        if let Err(e) = std::fs::write(path, ev.to_pretty()) {
            eprintln!("cannot write evidence {path}: {e}");
            return 2;
        }
    }
    let cov = res.evidence.get("coverage").unwrap();
    println!(
        "  runs={} distinct_nontrivial={} ticks={} signatures={} validated={} wall={}s",
        cov.get("evaluations").unwrap().to_compact(),
        cov.get("distinct_nontrivial").unwrap().to_compact(),
        cov.get("simulated_ticks").unwrap().to_compact(),
        cov.get("behaviour_signatures").unwrap().to_compact(),
        cov.get("traces_validated_against_impl").unwrap().to_compact(),
        res.evidence.get("wall_s").unwrap().to_compact(),
    );
    if args.flag("verbose") {
        println!("  faults: {}", cov.get("fault_kinds_fired").unwrap().to_compact());
        println!("  probes at zero: {}", cov.get("probes_at_zero").unwrap().to_compact());
    }
    if !res.harness_errors.is_empty() {
        for h in &res.harness_errors {
            eprintln!("HARNESS-ERROR {h}");
        }
        return 2;
    }
    if res.determinism_mismatches > 0 {
        eprintln!(
            "HARNESS-ERROR determinism self-check: {} runs differed when re-executed",
            res.determinism_mismatches
        );
        return 2;
    }
    if res.violations.is_empty() && res.known_hits.is_empty() {
        println!("OK property={} held on everything explored", prop.id());
        return 0;
    }
    // listed findings that were met: one line each, they do not fail the check
    for (k, n) in &res.known_hits {
        println!(
            "KNOWN-FINDING: property={} oracle={} {} (met in {} runs)",
            prop.id(),
            known[*k].oracle,
            known[*k].text,
            n
        );
    }
    if res.violations.is_empty() {
        println!(
            "OK property={} held on everything explored (apart from the listed known findings)",
            prop.id()
        );
        return 0;
    }
    // report the violation with the smallest run index (deterministic), minimised
    let mut exit = 0;
    for f in &res.violations {
        let viol = f.eval.violation.as_ref().unwrap();
        let base = f.eval.violating_case.as_ref().unwrap_or(&f.case);
        let (min, shrink_runs) = if args.flag("no-shrink") {
            (base.clone(), 0)
        } else {
            engine::shrink(prop, base, viol.oracle)
        };
        // re-evaluate the minimised case for the final detail text
        let limit = Duration::from_secs(if viol.oracle == "hang" { 5 } else { 60 });
        let runaway = || engine::RUNAWAY.load(std::sync::atomic::Ordering::SeqCst);
        // (once some candidate has been caught allocating without bound, its thread cannot be
        // stopped: no further evaluations, report what we have and exit)
        let (min, ev_final) = if runaway() {
            (min, f.eval.clone())
        } else {
            let ev_min = engine::evaluate_guarded(prop, &min, limit);
            match &ev_min.violation {
                Some(v2) if v2.oracle == viol.oracle => (min, ev_min),
                _ if runaway() => (base.clone(), f.eval.clone()),
                _ => (base.clone(), engine::evaluate_guarded(prop, base, limit)),
            }
        };
        let ev_final = if ev_final.violation.is_some() {
            ev_final
        } else {
            f.eval.clone()
        };
        let j = engine::replay_json(
            prop,
            seed,
            f.index,
            &f.case,
            &min,
            &ev_final,
            shrink_runs,
            &profile,
        );
        let _ = std::fs::create_dir_all(&replay_dir);
        let path = format!("{}/{}-{}-{}.json", replay_dir, prop.id(), seed, f.index);
        if let Err(e) = std::fs::write(&path, j.to_pretty()) {
            eprintln!("cannot write replay {path}: {e}");
            return 2;
        }
        // the replay must reproduce, in this process at least (bin/check re-runs it fresh)
        let reproduced = runaway() || {
            let again = engine::replay(&path);
            runaway()
                || matches!(&again, Ok(o) if o.eval.violation.as_ref().map(|v| v.oracle) == Some(viol.oracle))
        };
        let v2 = ev_final.violation.as_ref().unwrap();
        println!("  oracle {}: {}", v2.oracle, v2.detail);
        println!("  minimised source ({} candidate runs):", shrink_runs);
        for l in min.source_text().lines() {
            println!("    | {l}");
        }
        if !reproduced {
            eprintln!("HARNESS-ERROR replay of {path} did not reproduce the violation");
            return 2;
        }
        if args.flag("found-line") {
            // the wrapper confirms the replay in a fresh process before it prints VIOLATION
            println!("FOUND property={} replay={}", prop.id(), path);
        } else {
            println!("VIOLATION property={} replay={}", prop.id(), path);
        }
        exit = 1;
        break;
    }
    exit
}

fn merge_evidence(old: J, new: J) -> J {
    // sums the additive counters of two profile runs; keeps the samples of the first
    let (Some(oc), Some(nc)) = (old.get("coverage"), new.get("coverage")) else {
        return new;
    };
    let mut cov = oc.clone();
    let add = |a: Option<&J>, b: Option<&J>| -> J {
        J::Int(a.and_then(|x| x.as_i128().ok()).unwrap_or(0) + b.and_then(|x| x.as_i128().ok()).unwrap_or(0))
    };
    for key in [
        "evaluations",
        "generated_cases",
        "planned_cases",
        "simulated_ticks",
        "traces_validated_against_impl",
        "runs_cut_short_as_unspecified",
    ] {
        cov.put(key, add(oc.get(key), nc.get(key)));
    }
    // same seeds under another build profile are the same cases: distinct stays the maximum
    let d = oc
        .get("distinct_nontrivial")
        .and_then(|x| x.as_i128().ok())
        .unwrap_or(0)
        .max(nc.get("distinct_nontrivial").and_then(|x| x.as_i128().ok()).unwrap_or(0));
    cov.put("distinct_nontrivial", J::Int(d));
    for group in ["fault_kinds_fired", "probes"] {
        if let (Some(J::Obj(a)), Some(J::Obj(b))) = (oc.get(group), nc.get(group)) {
            let mut merged = J::obj();
            for (k, v) in a {
                let other = b.iter().find(|(k2, _)| k2 == k).map(|(_, v)| v);
                merged.put(k, add(Some(v), other));
            }
            cov.put(group, merged);
        }
    }
    let profiles = format!(
        "{}+{}",
        oc.get("profile").and_then(|p| p.as_str().ok()).unwrap_or("?"),
        nc.get("profile").and_then(|p| p.as_str().ok()).unwrap_or("?")
    );
    cov.put("profile", J::s(profiles));
    let wall = match (old.get("wall_s"), new.get("wall_s")) {
        (Some(J::Float(a)), Some(J::Float(b))) => a + b,
        _ => 0.0,
    };
    let ev = cov.get("evaluations").and_then(|x| x.as_i128().ok()).unwrap_or(0);
    if wall > 0.0 {
        cov.put("runs_per_hour", J::Int((ev as f64 / wall * 3600.0) as i128));
    }
    let viol = add(old.get("violations"), new.get("violations"));
    old.set("coverage", cov)
        .set("wall_s", J::Float(wall))
        .set("violations", viol)
}

fn cmd_replay(args: &Args) -> i32 {
    let Some(path) = args.pos.get(1) else { usage() };
    match engine::replay(path) {
        Err(e) => {
            eprintln!("HARNESS-ERROR cannot replay {path}: {e}");
            2
        }
        Ok(o) => {
            if let Some(h) = &o.eval.harness_error {
                eprintln!("HARNESS-ERROR {h}");
                return 2;
            }
            match &o.eval.violation {
                Some(v) => {
                    println!("  oracle {}: {}", v.oracle, v.detail);
                    if v.oracle != o.expected_oracle {
                        println!(
                            "  note: the replay file recorded oracle {}",
                            o.expected_oracle
                        );
                    }
                    println!("VIOLATION property={} replay={}", o.prop.id(), path);
                    1
                }
                None => {
                    println!(
                        "OK replay of {} no longer violates {} (recorded oracle {})",
                        path,
                        o.prop.id(),
                        o.expected_oracle
                    );
                    0
                }
            }
        }
    }
}

fn cmd_show(args: &Args) -> i32 {
    let Some(prop) = args.pos.get(1).and_then(|s| Prop::from_id(s)) else {
        usage()
    };
    let Some(index) = args.pos.get(2).map(|s| parse_u64(s)) else {
        usage()
    };
    let seed = seed_from(args);
    let tier = tier_from(args);
    let case = family::generate(prop, engine::run_seed(seed, prop, index), tier);
    println!("{}", case.to_json().to_pretty());
    println!("--- source ---\n{}", case.source_text());
    let ev = family::evaluate(prop, &case);
    println!(
        "--- evaluation ---\nviolation: {:?}\nnontrivial: {} runs: {} ticks: {} validated: {} unspecified: {} harness_error: {:?}",
        ev.violation, ev.nontrivial, ev.runs, ev.ticks, ev.validated, ev.unspecified, ev.harness_error
    );
    if args.flag("verbose") {
        let out = run::run_case(&case);
        println!("--- history ---\n{:#?}", out);
        let r = family::reference_for(&case, &out, 0);
        println!("--- reference ---\n{:#?}", r);
    }
    0
}

/// prints one line per run with the hash of its event log: for determinism proofs across
/// processes and worker counts
fn cmd_hashes(args: &Args) -> i32 {
    let Some(prop) = args.pos.get(1).and_then(|s| Prop::from_id(s)) else {
        usage()
    };
    let seed = seed_from(args);
    let tier = tier_from(args);
    let runs = args.opt("runs").map(parse_u64).unwrap_or(2000);
    let jobs = args.opt("jobs").map(|s| parse_u64(s) as usize).unwrap_or(1).max(1);
    let results = std::sync::Arc::new(std::sync::Mutex::new(vec![(0u64, 0u64, 0u64); runs as usize]));
    let next = std::sync::Arc::new(std::sync::atomic::AtomicU64::new(0));
    let mut hs = vec![];
    for _ in 0..jobs {
        let results = results.clone();
        let next = next.clone();
        hs.push(
            std::thread::Builder::new()
                .stack_size(64 << 20)
                .spawn(move || loop {
                    let i = next.fetch_add(1, std::sync::atomic::Ordering::Relaxed);
                    if i >= runs {
                        break;
                    }
                    let case = family::generate(prop, engine::run_seed(seed, prop, i), tier);
                    let ev = family::evaluate(prop, &case);
                    results.lock().unwrap()[i as usize] =
                        (case.fingerprint(), ev.log_hash, ev.signature);
                })
                .unwrap(),
        );
    }
    for h in hs {
        h.join().unwrap();
    }
    for (i, (a, b, c)) in results.lock().unwrap().iter().enumerate() {
        println!("{i} {a:016x} {b:016x} {c:016x}");
    }
    0
}

/// premise of DESIGN.md section 3: a `TestCase` can be shared between threads (it has no
/// interior mutability), so thread-level interleavings of iterators are observationally the
/// same as the `next()`-granularity interleavings the simulator's scheduler decides
#[allow(dead_code)]
fn assert_premise() {
    fn sync_and_send<T: Sync + Send>() {}
    sync_and_send::<digital_test_runner::TestCase>();
    sync_and_send::<digital_test_runner::ParsedTestCase>();
}

fn main() {
    run::install_panic_hook();
    let args = parse_args();
    let code = match args.pos.first().map(|s| s.as_str()) {
        Some("check") => cmd_check(&args),
        Some("replay") => cmd_replay(&args),
        Some("show") => cmd_show(&args),
        Some("hashes") => cmd_hashes(&args),
        Some("selftest") => selftest::run(),
        Some("props") => {
            for p in ALL_PROPS {
                println!("{}", p.id());
            }
            0
        }
        _ => usage(),
    };
    std::process::exit(code);
}
