//! The only source of randomness in the simulator: SplitMix64 for seed derivation,
//! xoshiro256** for streams. One integer decides everything.

#[inline]
pub fn splitmix(state: &mut u64) -> u64 {
    *state = state.wrapping_add(0x9E37_79B9_7F4A_7C15);
    let mut z = *state;
    z = (z ^ (z >> 30)).wrapping_mul(0xBF58_476D_1CE4_E5B9);
    z = (z ^ (z >> 27)).wrapping_mul(0x94D0_49BB_1331_11EB);
    z ^ (z >> 31)
}

/// Stateless mixing of several words into one (used for per-run seeds and for the
/// DUT's answer function).
pub fn mix(words: &[u64]) -> u64 {
    let mut s = 0x1234_5678_9ABC_DEF0u64;
    let mut out = 0u64;
    for w in words {
        s ^= *w;
        out = splitmix(&mut s) ^ out.rotate_left(23);
    }
    let mut t = out;
    splitmix(&mut t)
}

pub fn hash_str(s: &str) -> u64 {
    // FNV-1a, then mixed
    let mut h = 0xcbf2_9ce4_8422_2325u64;
    for b in s.as_bytes() {
        h ^= *b as u64;
        h = h.wrapping_mul(0x0000_0100_0000_01B3);
    }
    mix(&[h])
}

#[derive(Clone, Debug)]
pub struct Rng {
    s: [u64; 4],
}

impl Rng {
    pub fn new(seed: u64) -> Self {
        let mut st = seed;
        let s = [
            splitmix(&mut st),
            splitmix(&mut st),
            splitmix(&mut st),
            splitmix(&mut st),
        ];
        Rng { s }
    }

    #[inline]
    pub fn next_u64(&mut self) -> u64 {
        let result = self.s[1].wrapping_mul(5).rotate_left(7).wrapping_mul(9);
        let t = self.s[1] << 17;
        self.s[2] ^= self.s[0];
        self.s[3] ^= self.s[1];
        self.s[1] ^= self.s[2];
        self.s[0] ^= self.s[3];
        self.s[2] ^= t;
        self.s[3] = self.s[3].rotate_left(45);
        result
    }

    /// uniform in 0..n (n > 0)
    #[inline]
    pub fn below(&mut self, n: u64) -> u64 {
        debug_assert!(n > 0);
        // multiply-shift; bias is irrelevant for workload generation
        ((self.next_u64() as u128 * n as u128) >> 64) as u64
    }

    #[inline]
    pub fn range(&mut self, lo: i64, hi_incl: i64) -> i64 {
        debug_assert!(lo <= hi_incl);
        lo + self.below((hi_incl - lo) as u64 + 1) as i64
    }

    #[inline]
    pub fn usize(&mut self, n: usize) -> usize {
        self.below(n as u64) as usize
    }

    /// true with probability num/den
    #[inline]
    pub fn chance(&mut self, num: u64, den: u64) -> bool {
        self.below(den) < num
    }

    pub fn pick<'a, T>(&mut self, items: &'a [T]) -> &'a T {
        &items[self.usize(items.len())]
    }

    /// index drawn according to integer weights (at least one weight must be non-zero)
    pub fn weighted(&mut self, weights: &[u32]) -> usize {
        let total: u64 = weights.iter().map(|w| *w as u64).sum();
        debug_assert!(total > 0);
        let mut r = self.below(total);
        for (i, w) in weights.iter().enumerate() {
            if r < *w as u64 {
                return i;
            }
            r -= *w as u64;
        }
        weights.len() - 1
    }

    pub fn shuffle<T>(&mut self, items: &mut [T]) {
        for i in (1..items.len()).rev() {
            let j = self.usize(i + 1);
            items.swap(i, j);
        }
    }

    pub fn fork(&mut self) -> Rng {
        Rng::new(self.next_u64())
    }
}
