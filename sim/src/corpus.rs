//! Second, model-free workload source: the test programs inside /repo/tests/data/*.dig, loaded
//! with the real `dig::File` parser. They have no model AST, so only history-only oracles run
//! on them.

use crate::model::{InVal, SigKind, SigSpec};
use digital_test_runner::{dig, InputValue, SignalType};
use std::sync::OnceLock;

#[derive(Clone, Debug)]
pub struct CorpusTest {
    pub file: String,
    pub index: usize,
    pub name: String,
    pub source: String,
    pub signals: Vec<SigSpec>,
}

pub struct Corpus {
    pub tests: Vec<CorpusTest>,
    /// fixtures that could not be loaded (named in the evidence)
    pub skipped: Vec<String>,
}

static CORPUS: OnceLock<Corpus> = OnceLock::new();

pub fn repo_dir() -> String {
    std::env::var("DTR_SIM_REPO").unwrap_or_else(|_| "/repo".to_string())
}

fn load() -> Corpus {
    let dir = format!("{}/tests/data", repo_dir());
    let mut tests = vec![];
    let mut skipped = vec![];
    let mut files: Vec<String> = match std::fs::read_dir(&dir) {
        Ok(rd) => rd
            .filter_map(|e| e.ok())
            .map(|e| e.file_name().to_string_lossy().to_string())
            .filter(|n| n.ends_with(".dig"))
            .collect(),
        Err(_) => vec![],
    };
    files.sort();
    for f in files {
        let path = format!("{dir}/{f}");
        let Ok(text) = std::fs::read_to_string(&path) else {
            skipped.push(format!("{f}: unreadable"));
            continue;
        };
        let parsed = std::panic::catch_unwind(|| text.parse::<dig::File>());
        let file = match parsed {
            Ok(Ok(file)) => file,
            Ok(Err(_)) => {
                skipped.push(format!("{f}: rejected by dig::File::parse"));
                continue;
            }
            Err(_) => {
                skipped.push(format!("{f}: dig::File::parse panicked"));
                continue;
            }
        };
        let signals: Vec<SigSpec> = file
            .signals
            .iter()
            .filter_map(|s| {
                let conv = |v: InputValue| match v {
                    InputValue::Value(n) => InVal::Num(n),
                    InputValue::Z => InVal::Z,
                };
                let (kind, default) = match &s.typ {
                    SignalType::Input { default } => (SigKind::In, conv(*default)),
                    SignalType::Output => (SigKind::Out, InVal::Num(0)),
                    SignalType::Bidirectional { default } => (SigKind::Bidir, conv(*default)),
                    SignalType::Virtual { .. } => return None,
                };
                Some(SigSpec {
                    name: s.name.clone(),
                    bits: s.bits as u32,
                    kind,
                    default,
                })
            })
            .collect();
        for (i, t) in file.test_cases.iter().enumerate() {
            tests.push(CorpusTest {
                file: f.clone(),
                index: i,
                name: t.name.clone(),
                source: t.source.clone(),
                signals: signals.clone(),
            });
        }
    }
    Corpus { tests, skipped }
}

pub fn corpus() -> &'static Corpus {
    CORPUS.get_or_init(load)
}
