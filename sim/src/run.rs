//! Executes a `Case` against the real library and records the complete two-sided history.

use crate::case::{Action, Case};
use crate::dut::{in_val, out_val, real_signal, CallRec, DutCore, InRec, SimDutDe, SimDutOv, SimError};
use crate::model::{ExpVal, InVal, OutVal};
use digital_test_runner::errors::IterationError;
use digital_test_runner::verif_hooks::{self, DrawEvent};
use digital_test_runner::{
    DataRow, DataRowIterator, ExpectedValue, ParsedTestCase, Signal, SignalType, TestCase,
};
use std::cell::{Cell, RefCell};
use std::hash::{Hash, Hasher};
use std::panic::{catch_unwind, AssertUnwindSafe};
use std::rc::Rc;

// ---------------------------------------------------------------------------------------
// panic capture

#[derive(Clone, Debug, PartialEq, Eq, Hash)]
pub struct PanicInfo {
    pub msg: String,
    pub file: String,
    pub line: u32,
}

impl PanicInfo {
    /// panics raised by the harness itself (its files are compiled with relative paths)
    pub fn in_harness(&self) -> bool {
        self.file.starts_with("src/") || self.file.starts_with("/verif/")
    }
    pub fn show(&self) -> String {
        format!("panic at {}:{}: {}", self.file, self.line, self.msg)
    }
}

thread_local! {
    static LAST_PANIC: RefCell<Option<PanicInfo>> = const { RefCell::new(None) };
}

pub fn install_panic_hook() {
    let verbose = std::env::var_os("DTR_SIM_SHOW_PANICS").is_some();
    std::panic::set_hook(Box::new(move |info| {
        let msg = if let Some(s) = info.payload().downcast_ref::<&str>() {
            s.to_string()
        } else if let Some(s) = info.payload().downcast_ref::<String>() {
            s.clone()
        } else {
            "<non-string panic payload>".to_string()
        };
        let (file, line) = info
            .location()
            .map(|l| (l.file().to_string(), l.line()))
            .unwrap_or_default();
        let pi = PanicInfo { msg, file, line };
        if verbose || pi.in_harness() {
            eprintln!("[dtr-sim] {}", pi.show());
        }
        LAST_PANIC.with(|p| *p.borrow_mut() = Some(pi));
    }));
}

fn guarded<R>(f: impl FnOnce() -> R) -> Result<R, PanicInfo> {
    LAST_PANIC.with(|p| *p.borrow_mut() = None);
    match catch_unwind(AssertUnwindSafe(f)) {
        Ok(r) => Ok(r),
        Err(_) => Err(LAST_PANIC
            .with(|p| p.borrow_mut().take())
            .unwrap_or(PanicInfo {
                msg: "<panic without info>".into(),
                file: String::new(),
                line: 0,
            })),
    }
}

// ---------------------------------------------------------------------------------------
// F27: a caller that is a multi-threaded program. Two helper threads per evaluating thread;
// an action is handed to one of them and the evaluating thread blocks until it has returned,
// so exactly one thread runs at any time and the schedule (not the OS) decides which.

type Job = Box<dyn FnOnce() + Send + 'static>;

/// stack of the threads that execute library code (small enough for the C library to recycle
/// the stacks of finished threads instead of mapping fresh memory for every simulated run)
const RUN_STACK: usize = 2 << 20;

struct Helper {
    tx: std::sync::mpsc::Sender<Job>,
    done: std::sync::mpsc::Receiver<()>,
    tid: u64,
}

thread_local! {
    static HELPERS: RefCell<Vec<Helper>> = const { RefCell::new(Vec::new()) };
    static MIGRATED: Cell<u64> = const { Cell::new(0) };
}

/// number of actions executed on a helper thread by this thread's runs so far
pub fn migrated_actions() -> u64 {
    MIGRATED.with(|m| m.get())
}

fn spawn_helper() -> Helper {
    let (tx, rx) = std::sync::mpsc::channel::<Job>();
    let (done_tx, done) = std::sync::mpsc::channel::<()>();
    let (tid_tx, tid_rx) = std::sync::mpsc::channel::<u64>();
    std::thread::Builder::new()
        .name("dtr-sim-helper".into())
        .stack_size(RUN_STACK)
        .spawn(move || {
            let _ = tid_tx.send(crate::engine::my_tid());
            for job in rx {
                job();
                if done_tx.send(()).is_err() {
                    break;
                }
            }
        })
        .expect("harness: cannot spawn helper thread");
    let tid = tid_rx.recv().unwrap_or(0);
    Helper { tx, done, tid }
}

struct AssertSend<T>(T);
// SAFETY: the sending thread blocks until the job has completed (see `on_thread`), so the
// captured state (Rc-based logs, &mut iterators) is never touched by two threads at once;
// the channel send/receive pair orders the accesses.
unsafe impl<T> Send for AssertSend<T> {}

/// Executes `f` on OS thread `which` (0 = the calling thread, 1.. = helper threads) and
/// returns its result once it has finished. A job that keeps its helper busy for more CPU
/// time than a healthy run can need makes the waiting thread spin, so that the per-thread CPU
/// watchdogs (engine.rs) see the hang where they look for it.
fn on_thread<R>(which: usize, f: impl FnOnce() -> R) -> R {
    if which == 0 {
        return f();
    }
    MIGRATED.with(|m| m.set(m.get() + 1));
    HELPERS.with(|h| {
        let mut h = h.borrow_mut();
        while h.len() < which {
            h.push(spawn_helper());
        }
        let helper = &h[which - 1];
        let mut slot: Option<R> = None;
        {
            let slot_ref = AssertSend(&mut slot as *mut Option<R>);
            let f = AssertSend(f);
            let job: Box<dyn FnOnce() + Send + '_> = Box::new(move || {
                let slot_ref = slot_ref;
                let f = f;
                let r = (f.0)();
                // SAFETY: `slot` outlives the job because the caller waits for `done` below
                unsafe { *slot_ref.0 = Some(r) };
            });
            // SAFETY: the job is finished (or its thread is gone) before this block is left
            let job: Job = unsafe { std::mem::transmute(job) };
            helper.tx.send(job).expect("harness: helper thread is gone");
            // (the helper's CPU clock is read only once an action takes unusually long)
            let mut cpu0: Option<u64> = None;
            loop {
                match helper.done.recv_timeout(std::time::Duration::from_millis(500)) {
                    Ok(()) => break,
                    Err(std::sync::mpsc::RecvTimeoutError::Timeout) => {
                        let now = crate::engine::thread_cpu_ticks(helper.tid).unwrap_or(0);
                        let base = *cpu0.get_or_insert(now);
                        let used = now.saturating_sub(base);
                        if used > 50 {
                            // more than a second of CPU inside one action: mirror the
                            // helper's consumption on this thread (bounded busy wait)
                            let until = std::time::Instant::now()
                                + std::time::Duration::from_millis(450);
                            while std::time::Instant::now() < until {
                                std::hint::spin_loop();
                            }
                        }
                    }
                    Err(std::sync::mpsc::RecvTimeoutError::Disconnected) => {
                        panic!("harness: helper thread died")
                    }
                }
            }
        }
        slot.expect("harness: helper returned nothing")
    })
}

/// Executes `f` on a fresh OS thread and returns its result. A simulated run whose case
/// involves threads (F27) or an earlier test on the same thread (F28) gets a thread of its own
/// and fresh helper threads: whatever per-thread state the library keeps starts out empty,
/// so the run is a function of its `Case` alone. (A fresh thread for *every* run would cost
/// about 1 ms each with sixteen workers creating threads at once; ordinary runs therefore stay
/// on their worker, and the engine confirms every violation in isolation before it counts.)
fn on_fresh_thread<R>(f: impl FnOnce() -> R) -> R {
    let (tx, rx) = std::sync::mpsc::channel::<(AssertSend<R>, u64)>();
    let (tid_tx, tid_rx) = std::sync::mpsc::channel::<u64>();
    let f = AssertSend(f);
    std::thread::scope(|scope| {
        std::thread::Builder::new()
            .name("dtr-sim-run".into())
            .stack_size(RUN_STACK)
            .spawn_scoped(scope, move || {
                let f = f;
                let _ = tid_tx.send(crate::engine::my_tid());
                let r = (f.0)();
                let _ = tx.send((AssertSend(r), migrated_actions()));
            })
            .expect("harness: cannot spawn a thread for the run");
        let tid = tid_rx.recv().unwrap_or(0);
        let mut mirrored = 0u64;
        loop {
            match rx.recv_timeout(std::time::Duration::from_millis(500)) {
                Ok((r, migrated)) => {
                    MIGRATED.with(|m| m.set(m.get() + migrated));
                    return r.0;
                }
                Err(std::sync::mpsc::RecvTimeoutError::Timeout) => {
                    // mirror the CPU time the run consumes on this (watched) thread
                    let used = crate::engine::thread_cpu_ticks(tid).unwrap_or(0);
                    if used > mirrored + 40 {
                        let until = std::time::Instant::now()
                            + std::time::Duration::from_millis(10 * (used - mirrored).min(45));
                        while std::time::Instant::now() < until {
                            std::hint::spin_loop();
                        }
                        mirrored = used;
                    }
                }
                Err(std::sync::mpsc::RecvTimeoutError::Disconnected) => {
                    panic!("harness: the thread of a simulated run died")
                }
            }
        }
    })
}

// ---------------------------------------------------------------------------------------
// records

#[derive(Clone, Copy, Debug, PartialEq, Eq, Hash)]
pub enum RKind {
    In,
    Out,
    Bidir,
    Virtual,
}

#[derive(Clone, Debug, PartialEq, Eq, Hash)]
pub struct RealSig {
    pub name: String,
    pub bits: usize,
    pub kind: RKind,
    pub default: Option<InVal>,
}

impl RealSig {
    pub fn is_input(&self) -> bool {
        matches!(self.kind, RKind::In | RKind::Bidir)
    }
    /// has an entry in checked rows' `outputs`
    pub fn is_expected(&self) -> bool {
        matches!(self.kind, RKind::Out | RKind::Bidir | RKind::Virtual)
    }
    pub fn is_device_output(&self) -> bool {
        matches!(self.kind, RKind::Out | RKind::Bidir)
    }
}

#[derive(Clone, Debug, PartialEq, Eq, Hash)]
pub struct OutRec {
    pub sig: u32,
    pub output: OutVal,
    pub expected: ExpVal,
    pub check: bool,
    pub is_checked: bool,
}

#[derive(Clone, Debug, PartialEq, Eq, Hash)]
pub struct RowRec {
    pub inputs: Vec<InRec>,
    pub outputs: Vec<OutRec>,
    /// positions (in `outputs`) returned by `failing_outputs()`, or `None` if it returned
    /// something that is not an element of `outputs`
    pub failing: Option<Vec<u32>>,
    pub line: usize,
}

#[derive(Clone, Debug, PartialEq, Eq, Hash)]
pub enum Item {
    Row(RowRec),
    RuntimeErr(String),
    DriverErr(u64),
    End,
    Panic(PanicInfo),
}

impl Item {
    pub fn class(&self) -> &'static str {
        match self {
            Item::Row(_) => "row",
            Item::RuntimeErr(_) => "runtime-error",
            Item::DriverErr(_) => "driver-error",
            Item::End => "end",
            Item::Panic(_) => "panic",
        }
    }
}

#[derive(Clone, Debug, PartialEq, Eq, Hash)]
pub enum Ctor {
    Ok,
    RuntimeErr(String),
    DriverErr(u64),
    Panic(PanicInfo),
}

#[derive(Clone, Debug, PartialEq, Eq, Hash)]
pub struct StepRec {
    pub seq_invoke: u64,
    pub seq_return: u64,
    /// range of this iterator's DUT calls made inside this `next()`
    pub calls: (usize, usize),
    pub item: Item,
    pub draws: Vec<Draw>,
}

/// hashable mirror of the hook's DrawEvent
#[derive(Clone, Copy, Debug, PartialEq, Eq, Hash)]
pub enum Draw {
    Bound(i64),
    Draw,
    Value(i64),
    Reset,
}

fn draws() -> Vec<Draw> {
    verif_hooks::take_draw_log()
        .into_iter()
        .map(|d| match d {
            DrawEvent::Bound(b) => Draw::Bound(b),
            DrawEvent::Draw => Draw::Draw,
            DrawEvent::Value(v) => Draw::Value(v),
            DrawEvent::Reset => Draw::Reset,
        })
        .collect()
}

#[derive(Clone, Debug, PartialEq, Eq, Hash)]
pub struct VarsRec {
    /// number of `next()` calls made on this iterator before this inspection
    pub after_steps: usize,
    pub seq: u64,
    /// number of DUT calls made inside `vars()` (must be 0)
    pub calls: usize,
    pub result: Result<Vec<(String, i64)>, PanicInfo>,
}

#[derive(Clone, Debug, Default)]
pub struct IterHist {
    pub constructed: bool,
    pub ctor: Option<Ctor>,
    pub ctor_seq: (u64, u64),
    pub ctor_calls: (usize, usize),
    pub ctor_draws: Vec<Draw>,
    pub steps: Vec<StepRec>,
    pub vars: Vec<VarsRec>,
    pub calls: Vec<CallRec>,
    /// the per-iterator cap on `next()` stopped a `Run`
    pub capped: bool,
    /// number of DUT calls that happened outside any constructor / next() / vars() window
    pub stray_calls: usize,
}

#[derive(Clone, Debug, PartialEq, Eq, Hash)]
pub enum Load {
    Ok,
    ParseErr(String),
    SignalErr(String),
    Panic(PanicInfo),
}

#[derive(Clone, Debug, PartialEq, Eq, Hash)]
pub enum StaticItem {
    Row {
        inputs: Vec<InRec>,
        expected: Vec<(u32, ExpVal)>,
        line: usize,
    },
    Err(String),
    Panic(PanicInfo),
}

#[derive(Clone, Debug, PartialEq, Eq, Hash)]
pub enum StaticHist {
    Refused(String),
    Ran(Vec<StaticItem>),
    Panic(PanicInfo),
}

#[derive(Clone, Debug, PartialEq, Eq, Hash)]
pub struct Reparse {
    pub hash_seed: u64,
    pub parsed_equal: bool,
    pub test_equal: bool,
    pub signals: Vec<String>,
    pub note: String,
}

#[derive(Clone, Debug)]
pub struct RunOut {
    pub load: Load,
    /// the header column names as the parser saw them
    pub header: Vec<String>,
    pub sigs: Vec<RealSig>,
    pub iters: Vec<IterHist>,
    pub statik: Option<StaticHist>,
    pub reparse: Vec<Reparse>,
    pub log_hash: u64,
    /// total number of driver calls (the run's logical time)
    pub ticks: u64,
}

// ---------------------------------------------------------------------------------------

fn exp_val(v: ExpectedValue) -> ExpVal {
    match v {
        ExpectedValue::Value(n) => ExpVal::Num(n),
        ExpectedValue::Z => ExpVal::Z,
        ExpectedValue::X => ExpVal::X,
    }
}

fn real_sig(s: &Signal) -> RealSig {
    let (kind, default) = match &s.typ {
        SignalType::Input { default } => (RKind::In, Some(in_val(*default))),
        SignalType::Output => (RKind::Out, None),
        SignalType::Bidirectional { default } => (RKind::Bidir, Some(in_val(*default))),
        SignalType::Virtual { .. } => (RKind::Virtual, None),
    };
    RealSig {
        name: s.name.clone(),
        bits: s.bits,
        kind,
        default,
    }
}

fn sig_index(all: &[Signal], s: &Signal) -> u32 {
    let base = all.as_ptr() as usize;
    let p = s as *const Signal as usize;
    let size = std::mem::size_of::<Signal>();
    if p >= base && (p - base) % size == 0 && (p - base) / size < all.len() {
        return ((p - base) / size) as u32;
    }
    all.iter()
        .position(|x| x == s)
        .map(|i| i as u32)
        .unwrap_or(u32::MAX)
}

fn row_rec(all: &[Signal], row: &DataRow<'_>) -> RowRec {
    let inputs = row
        .inputs
        .iter()
        .map(|e| InRec {
            sig: sig_index(all, e.signal),
            value: in_val(e.value),
            changed: e.changed,
        })
        .collect();
    let outputs = row
        .outputs
        .iter()
        .map(|e| OutRec {
            sig: sig_index(all, e.signal),
            output: out_val(e.output),
            expected: exp_val(e.expected),
            check: e.check(),
            is_checked: e.is_checked(),
        })
        .collect();
    let mut failing = Some(vec![]);
    for f in row.failing_outputs() {
        let pos = row
            .outputs
            .iter()
            .position(|o| std::ptr::eq(o as *const _, f as *const _));
        match (pos, failing.as_mut()) {
            (Some(p), Some(v)) => v.push(p as u32),
            _ => failing = None,
        }
    }
    RowRec {
        inputs,
        outputs,
        failing,
        line: row.line,
    }
}

enum AnyIter<'a, 'b> {
    Ov(DataRowIterator<'a, 'b, SimDutOv>),
    De(DataRowIterator<'a, 'b, SimDutDe>),
}

type NextItem<'a> = Option<Result<DataRow<'a>, IterationError<SimError>>>;

impl<'a, 'b> AnyIter<'a, 'b> {
    fn next(&mut self) -> NextItem<'a> {
        match self {
            AnyIter::Ov(it) => it.next(),
            AnyIter::De(it) => it.next(),
        }
    }
    fn vars(&self) -> Vec<(String, i64)> {
        let m = match self {
            AnyIter::Ov(it) => it.vars(),
            AnyIter::De(it) => it.vars(),
        };
        let mut v: Vec<(String, i64)> = m.into_iter().collect();
        v.sort();
        v
    }
}

enum AnyDut {
    Ov(SimDutOv),
    De(SimDutDe),
}

fn parse_and_bind(
    text: &str,
    signals: &[Signal],
    hash_seed: u64,
    // the OS threads (F27) on which the text is parsed and on which the signals are bound
    threads: (usize, usize),
) -> Result<(ParsedTestCase, Result<TestCase, String>), Load> {
    let parsed = on_thread(threads.0, || {
        verif_hooks::set_hash_order(Some(hash_seed));
        let r = guarded(|| text.parse::<ParsedTestCase>());
        verif_hooks::set_hash_order(None);
        r
    });
    let parsed = match parsed {
        Err(p) => {
            return Err(Load::Panic(p));
        }
        Ok(Err(e)) => {
            return Err(Load::ParseErr(format!("{e:?}")));
        }
        Ok(Ok(p)) => p,
    };
    let keep = parsed.clone();
    let bound = on_thread(threads.1, || {
        verif_hooks::set_hash_order(Some(hash_seed));
        let r = guarded(|| parsed.with_signals(signals.to_vec()));
        verif_hooks::set_hash_order(None);
        r
    });
    match bound {
        Err(p) => Err(Load::Panic(p)),
        Ok(Err(e)) => Ok((keep, Err(format!("{e:?}")))),
        Ok(Ok(tc)) => Ok((keep, Ok(tc))),
    }
}

pub fn run_case(case: &Case) -> RunOut {
    let text = case.source_text();
    run_case_text(case, &text)
}

pub fn run_case_text(case: &Case, text: &str) -> RunOut {
    if case.prelude.is_empty() && case.thread_seed.is_none() {
        return run_case_text_here(case, text);
    }
    on_fresh_thread(|| {
        // F28: this thread (and its helpers) ran other tests before
        for p in &case.prelude {
            let _ = run_case_text_here(p, &p.source_text());
        }
        run_case_text_here(case, text)
    })
}

fn run_case_text_here(case: &Case, text: &str) -> RunOut {
    let mut out = RunOut {
        load: Load::Ok,
        header: vec![],
        sigs: vec![],
        iters: vec![],
        statik: None,
        reparse: vec![],
        log_hash: 0,
        ticks: 0,
    };
    let _ = verif_hooks::take_draw_log();
    let signals: Vec<Signal> = case.signals.iter().map(real_signal).collect();

    let first = parse_and_bind(
        text,
        &signals,
        case.hash_seed,
        (case.thread_for(1_000_003, 0), case.thread_for(1_000_006, 0)),
    );
    let (parsed, tc) = match first {
        Err(load) => {
            out.load = load;
            out.log_hash = hash_of(&out);
            return out;
        }
        Ok((p, Err(e))) => {
            let _ = p;
            out.load = Load::SignalErr(e);
            out.log_hash = hash_of(&out);
            return out;
        }
        Ok((p, Ok(tc))) => (p, tc),
    };
    out.sigs = tc.signals.iter().map(real_sig).collect();
    out.header = parsed.signals.clone();

    // further parses of the same text under other hash orders
    for (k, hs) in case.reparse.iter().enumerate() {
        let k = k as u64;
        let again = parse_and_bind(
            text,
            &signals,
            *hs,
            (case.thread_for(1_000_005, k), case.thread_for(1_000_007, k)),
        );
        let r = match again {
            Err(load) => Reparse {
                hash_seed: *hs,
                parsed_equal: false,
                test_equal: false,
                signals: vec![],
                note: format!("{load:?}"),
            },
            Ok((p, Err(e))) => Reparse {
                hash_seed: *hs,
                parsed_equal: p == parsed,
                test_equal: false,
                signals: vec![],
                note: e,
            },
            Ok((p, Ok(tc2))) => Reparse {
                hash_seed: *hs,
                parsed_equal: p == parsed,
                test_equal: tc2 == tc,
                signals: tc2.signals.iter().map(|s| s.name.clone()).collect(),
                note: String::new(),
            },
        };
        out.reparse.push(r);
    }

    let test_sigs = Rc::new(tc.signals.clone());
    let seq = Rc::new(Cell::new(0u64));
    let tick = |seq: &Rc<Cell<u64>>| {
        let s = seq.get();
        seq.set(s + 1);
        s
    };

    // (a caller that asks for the static rows before it runs the test against a device)
    if case.run_static && case.static_first {
        out.statik = Some(on_thread(case.thread_for(1_000_004, 0), || {
            run_static_part(&tc, case)
        }));
    }

    // DUTs
    let mut duts: Vec<AnyDut> = vec![];
    let mut logs = vec![];
    for spec in &case.duts {
        let core = match DutCore::new(spec.clone(), test_sigs.clone(), seq.clone()) {
            Ok(c) => c,
            Err(e) => panic!("harness: bad DUT spec: {e}"),
        };
        logs.push(core.log.clone());
        duts.push(if spec.overrides_write {
            AnyDut::Ov(SimDutOv(core))
        } else {
            AnyDut::De(SimDutDe(core))
        });
    }
    let n = duts.len();
    let mut hists: Vec<IterHist> = (0..n).map(|_| IterHist::default()).collect();
    {
        let mut dut_refs: Vec<Option<&mut AnyDut>> = duts.iter_mut().map(Some).collect();
        let mut its: Vec<Option<AnyIter<'_, '_>>> = (0..n).map(|_| None).collect();
        // per iterator: finished with an error item / panic -> no further next()
        let mut dead = vec![false; n];
        let mut nones = vec![0usize; n];
        // number of this iterator's calls already attributed to a window
        let mut seen = vec![0usize; n];

        let all = &tc.signals[..];
        let one_next = |i: usize,
                            its: &mut Vec<Option<AnyIter<'_, '_>>>,
                            hists: &mut Vec<IterHist>,
                            dead: &mut Vec<bool>,
                            nones: &mut Vec<usize>,
                            seen: &mut Vec<usize>|
         -> bool {
            // returns true if the iterator can go on
            let Some(it) = its[i].as_mut() else {
                return false;
            };
            if dead[i] {
                return false;
            }
            let before = logs[i].borrow().len();
            hists[i].stray_calls += before - seen[i];
            let seq_invoke = tick(&seq);
            let step_no = hists[i].steps.len();
            let (res, step_draws) = on_thread(case.thread_for(i as u64, step_no as u64), || {
                let res = guarded(|| it.next().map(|r| r.map(|row| row_rec(all, &row))));
                (res, draws())
            });
            let seq_return = tick(&seq);
            let after = logs[i].borrow().len();
            seen[i] = after;
            let item = match res {
                Err(p) => Item::Panic(p),
                Ok(None) => Item::End,
                Ok(Some(Ok(row))) => Item::Row(row),
                Ok(Some(Err(IterationError::Driver(e)))) => Item::DriverErr(e.id),
                Ok(Some(Err(IterationError::Runtime(e)))) => Item::RuntimeErr(format!("{e:?}")),
            };
            let go_on = match &item {
                Item::Row(_) => true,
                Item::End => {
                    nones[i] += 1;
                    false
                }
                Item::Panic(_) => {
                    dead[i] = true;
                    false
                }
                _ => {
                    if case.continue_after_error {
                        true
                    } else {
                        dead[i] = true;
                        false
                    }
                }
            };
            hists[i].steps.push(StepRec {
                seq_invoke,
                seq_return,
                calls: (before, after),
                item,
                draws: step_draws,
            });
            let yielded_row = matches!(hists[i].steps[step_no].item, Item::Row(_));
            if go_on && yielded_row && case.inspects(step_no) {
                let it = its[i].as_ref().unwrap();
                let s = tick(&seq);
                let r = on_thread(case.thread_for(100 + i as u64, step_no as u64 + 1), || {
                    guarded(|| it.vars())
                });
                let now = logs[i].borrow().len();
                hists[i].vars.push(VarsRec {
                    after_steps: step_no + 1,
                    seq: s,
                    calls: now - after,
                    result: r,
                });
                seen[i] = now;
            }
            go_on
        };

        for action in &case.schedule {
            match *action {
                Action::Construct(i) => {
                    let i = i as usize;
                    if i >= n || hists[i].constructed {
                        continue;
                    }
                    let Some(d) = dut_refs[i].take() else { continue };
                    hists[i].constructed = true;
                    let before = logs[i].borrow().len();
                    let s0 = tick(&seq);
                    let tc_ref = &tc;
                    let (res, ctor_draws) = on_thread(case.thread_for(200 + i as u64, 0), || {
                        verif_hooks::set_entropy(Some(case.entropy.get(i).copied().unwrap_or(0)));
                        let res = guarded(|| match d {
                            AnyDut::Ov(d) => tc_ref.try_iter(d).map(AnyIter::Ov),
                            AnyDut::De(d) => tc_ref.try_iter(d).map(AnyIter::De),
                        });
                        verif_hooks::set_entropy(None);
                        (res, draws())
                    });
                    let s1 = tick(&seq);
                    let after = logs[i].borrow().len();
                    seen[i] = after;
                    hists[i].ctor_seq = (s0, s1);
                    hists[i].ctor_calls = (before, after);
                    hists[i].ctor_draws = ctor_draws;
                    hists[i].ctor = Some(match res {
                        Err(p) => Ctor::Panic(p),
                        Ok(Err(IterationError::Driver(e))) => Ctor::DriverErr(e.id),
                        Ok(Err(IterationError::Runtime(e))) => Ctor::RuntimeErr(format!("{e:?}")),
                        Ok(Ok(it)) => {
                            its[i] = Some(it);
                            Ctor::Ok
                        }
                    });
                }
                Action::Next(i) => {
                    let i = i as usize;
                    if i >= n || its[i].is_none() || dead[i] {
                        continue;
                    }
                    if nones[i] > 3 || hists[i].steps.len() >= case.max_steps + 4 {
                        continue;
                    }
                    one_next(i, &mut its, &mut hists, &mut dead, &mut nones, &mut seen);
                }
                Action::Run(i) => {
                    let i = i as usize;
                    if i >= n || its[i].is_none() || dead[i] || nones[i] > 0 {
                        continue;
                    }
                    loop {
                        if hists[i].steps.len() >= case.max_steps {
                            hists[i].capped = true;
                            break;
                        }
                        if !one_next(i, &mut its, &mut hists, &mut dead, &mut nones, &mut seen) {
                            break;
                        }
                    }
                }
                Action::Vars(i) => {
                    let i = i as usize;
                    if i >= n || dead[i] {
                        continue;
                    }
                    let Some(it) = its[i].as_ref() else { continue };
                    let before = logs[i].borrow().len();
                    let s = tick(&seq);
                    let after_steps = hists[i].steps.len();
                    let r = on_thread(case.thread_for(100 + i as u64, after_steps as u64), || {
                        guarded(|| it.vars())
                    });
                    let now = logs[i].borrow().len();
                    hists[i].vars.push(VarsRec {
                        after_steps,
                        seq: s,
                        calls: now - before,
                        result: r,
                    });
                    seen[i] = now;
                }
                Action::DropIt(i) => {
                    let i = i as usize;
                    if i < n {
                        its[i] = None;
                    }
                }
            }
        }
        for i in 0..n {
            let len = logs[i].borrow().len();
            hists[i].stray_calls += len - seen[i];
        }
    }
    for (i, h) in hists.iter_mut().enumerate() {
        h.calls = logs[i].borrow().clone();
        out.ticks += h.calls.len() as u64;
    }
    out.iters = hists;

    if case.run_static && !case.static_first {
        out.statik = Some(on_thread(case.thread_for(1_000_004, 0), || {
            run_static_part(&tc, case)
        }));
    }

    out.log_hash = hash_of(&out);
    out
}

fn run_static_part(tc: &digital_test_runner::TestCase, case: &Case) -> StaticHist {
        let all = &tc.signals[..];
        verif_hooks::set_entropy(Some(case.entropy.first().copied().unwrap_or(0)));
        let st = guarded(|| tc.try_iter_static());
        verif_hooks::set_entropy(None);
        let hist = match st {
            Err(p) => StaticHist::Panic(p),
            Ok(Err(e)) => StaticHist::Refused(format!("{e:?}")),
            Ok(Ok(mut it)) => {
                let mut items = vec![];
                loop {
                    if items.len() >= case.max_steps {
                        break;
                    }
                    let r = guarded(|| {
                        it.next().map(|r| {
                            r.map(|row| StaticItem::Row {
                                inputs: row
                                    .inputs
                                    .iter()
                                    .map(|e| InRec {
                                        sig: sig_index(all, e.signal),
                                        value: in_val(e.value),
                                        changed: e.changed,
                                    })
                                    .collect(),
                                expected: row
                                    .expected
                                    .iter()
                                    .map(|e| (sig_index(all, e.signal), exp_val(e.value)))
                                    .collect(),
                                line: row.line,
                            })
                        })
                    });
                    match r {
                        Err(p) => {
                            items.push(StaticItem::Panic(p));
                            break;
                        }
                        Ok(None) => break,
                        Ok(Some(Ok(item))) => items.push(item),
                        Ok(Some(Err(e))) => {
                            items.push(StaticItem::Err(format!("{e:?}")));
                            break;
                        }
                    }
                }
                StaticHist::Ran(items)
            }
        };
        let _ = verif_hooks::take_draw_log();
        hist
}

fn hash_of(out: &RunOut) -> u64 {
    let mut h = std::collections::hash_map::DefaultHasher::new();
    out.load.hash(&mut h);
    out.sigs.hash(&mut h);
    for it in &out.iters {
        it.constructed.hash(&mut h);
        it.ctor.hash(&mut h);
        it.ctor_seq.hash(&mut h);
        it.ctor_calls.hash(&mut h);
        it.ctor_draws.hash(&mut h);
        it.steps.hash(&mut h);
        it.vars.hash(&mut h);
        it.capped.hash(&mut h);
        it.stray_calls.hash(&mut h);
        for c in &it.calls {
            c.seq.hash(&mut h);
            c.write_only.hash(&mut h);
            c.inputs.hash(&mut h);
            format!("{:?}", c.answer).hash(&mut h);
        }
    }
    out.statik.hash(&mut h);
    out.reparse.hash(&mut h);
    h.finish()
}
