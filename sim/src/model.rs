//! The generating model: signal lists, headers, program AST. Programs are generated in this
//! form, printed canonically and fed to the real parser; the reference interpreter runs on
//! this form and never sees the crate's own AST.

use crate::json::J;

#[derive(Clone, Copy, Debug, PartialEq, Eq, Hash)]
pub enum InVal {
    Num(i64),
    Z,
}

#[derive(Clone, Copy, Debug, PartialEq, Eq, Hash)]
pub enum OutVal {
    Num(i64),
    Z,
    X,
}

#[derive(Clone, Copy, Debug, PartialEq, Eq, Hash)]
pub enum ExpVal {
    Num(i64),
    Z,
    X,
}

#[derive(Clone, Copy, Debug, PartialEq, Eq, Hash)]
pub enum SigKind {
    In,
    Out,
    Bidir,
}

#[derive(Clone, Debug, PartialEq, Eq, Hash)]
pub struct SigSpec {
    pub name: String,
    pub bits: u32,
    pub kind: SigKind,
    /// default for In / Bidir (ignored for Out)
    pub default: InVal,
}

impl SigSpec {
    pub fn is_input(&self) -> bool {
        matches!(self.kind, SigKind::In | SigKind::Bidir)
    }
    pub fn is_output(&self) -> bool {
        matches!(self.kind, SigKind::Out | SigKind::Bidir)
    }
}

#[derive(Clone, Copy, Debug, PartialEq, Eq, Hash)]
pub enum UnOp {
    Neg,
    Not,
    Inv,
}

#[derive(Clone, Copy, Debug, PartialEq, Eq, Hash)]
pub enum BinOp {
    Eq,
    Ne,
    Gt,
    Lt,
    Ge,
    Le,
    Or,
    Xor,
    And,
    Shl,
    Shr,
    Add,
    Sub,
    Mul,
    Div,
    Rem,
}

pub const ALL_BINOPS: [BinOp; 16] = [
    BinOp::Eq,
    BinOp::Ne,
    BinOp::Gt,
    BinOp::Lt,
    BinOp::Ge,
    BinOp::Le,
    BinOp::Or,
    BinOp::Xor,
    BinOp::And,
    BinOp::Shl,
    BinOp::Shr,
    BinOp::Add,
    BinOp::Sub,
    BinOp::Mul,
    BinOp::Div,
    BinOp::Rem,
];

impl BinOp {
    pub fn text(self) -> &'static str {
        match self {
            BinOp::Eq => "=",
            BinOp::Ne => "!=",
            BinOp::Gt => ">",
            BinOp::Lt => "<",
            BinOp::Ge => ">=",
            BinOp::Le => "<=",
            BinOp::Or => "|",
            BinOp::Xor => "^",
            BinOp::And => "&",
            BinOp::Shl => "<<",
            BinOp::Shr => ">>",
            BinOp::Add => "+",
            BinOp::Sub => "-",
            BinOp::Mul => "*",
            BinOp::Div => "/",
            BinOp::Rem => "%",
        }
    }
    pub fn from_text(s: &str) -> Option<BinOp> {
        ALL_BINOPS.iter().copied().find(|op| op.text() == s)
    }
}

impl UnOp {
    pub fn text(self) -> &'static str {
        match self {
            UnOp::Neg => "-",
            UnOp::Not => "!",
            UnOp::Inv => "~",
        }
    }
}

#[derive(Clone, Debug, PartialEq, Eq, Hash)]
pub enum Expr {
    /// non-negative literal (negative values are written with `Neg`)
    Num(i64),
    /// identifier: a variable or a device output, decided by scoping
    Id(String),
    Un(UnOp, Box<Expr>),
    Bin(BinOp, Box<Expr>, Box<Expr>),
    Ite(Box<Expr>, Box<Expr>, Box<Expr>),
    Random(Box<Expr>),
    SignExt(Box<Expr>, Box<Expr>),
}

impl Expr {
    pub fn num(n: i64) -> Expr {
        if n >= 0 {
            Expr::Num(n)
        } else if n == i64::MIN {
            Expr::Bin(
                BinOp::Sub,
                Box::new(Expr::Un(UnOp::Neg, Box::new(Expr::Num(i64::MAX)))),
                Box::new(Expr::Num(1)),
            )
        } else {
            Expr::Un(UnOp::Neg, Box::new(Expr::Num(-n)))
        }
    }
    pub fn id(s: &str) -> Expr {
        Expr::Id(s.to_string())
    }
    pub fn bin(op: BinOp, l: Expr, r: Expr) -> Expr {
        Expr::Bin(op, Box::new(l), Box::new(r))
    }
    pub fn un(op: UnOp, e: Expr) -> Expr {
        Expr::Un(op, Box::new(e))
    }
    pub fn ite(c: Expr, a: Expr, b: Expr) -> Expr {
        Expr::Ite(Box::new(c), Box::new(a), Box::new(b))
    }
    pub fn random(e: Expr) -> Expr {
        Expr::Random(Box::new(e))
    }

    pub fn print(&self, out: &mut String) {
        match self {
            Expr::Num(n) => out.push_str(&n.to_string()),
            Expr::Id(s) => out.push_str(s),
            Expr::Un(op, e) => {
                out.push_str(op.text());
                // none of our tokens merge (`--`, `!~` are lexed as two tokens) and `!`
                // followed by `=` cannot occur since no operand starts with `=`
                e.print(out);
            }
            Expr::Bin(op, l, r) => {
                out.push('(');
                l.print(out);
                out.push(' ');
                out.push_str(op.text());
                out.push(' ');
                r.print(out);
                out.push(')');
            }
            Expr::Ite(c, a, b) => {
                out.push_str("ite(");
                c.print(out);
                out.push(',');
                a.print(out);
                out.push(',');
                b.print(out);
                out.push(')');
            }
            Expr::Random(e) => {
                out.push_str("random(");
                e.print(out);
                out.push(')');
            }
            Expr::SignExt(a, b) => {
                out.push_str("signExt(");
                a.print(out);
                out.push(',');
                b.print(out);
                out.push(')');
            }
        }
    }

    pub fn to_text(&self) -> String {
        let mut s = String::new();
        self.print(&mut s);
        s
    }

    /// visit all identifiers (in evaluation order, ignoring laziness)
    pub fn ids<'a>(&'a self, f: &mut dyn FnMut(&'a str)) {
        match self {
            Expr::Num(_) => {}
            Expr::Id(s) => f(s),
            Expr::Un(_, e) | Expr::Random(e) => e.ids(f),
            Expr::Bin(_, l, r) | Expr::SignExt(l, r) => {
                l.ids(f);
                r.ids(f);
            }
            Expr::Ite(c, a, b) => {
                c.ids(f);
                a.ids(f);
                b.ids(f);
            }
        }
    }

    pub fn contains_random(&self) -> bool {
        match self {
            Expr::Num(_) | Expr::Id(_) => false,
            Expr::Random(_) => true,
            Expr::Un(_, e) => e.contains_random(),
            Expr::Bin(_, l, r) | Expr::SignExt(l, r) => l.contains_random() || r.contains_random(),
            Expr::Ite(c, a, b) => {
                c.contains_random() || a.contains_random() || b.contains_random()
            }
        }
    }

    pub fn size(&self) -> usize {
        match self {
            Expr::Num(_) | Expr::Id(_) => 1,
            Expr::Un(_, e) | Expr::Random(e) => 1 + e.size(),
            Expr::Bin(_, l, r) | Expr::SignExt(l, r) => 1 + l.size() + r.size(),
            Expr::Ite(c, a, b) => 1 + c.size() + a.size() + b.size(),
        }
    }

    pub fn to_json(&self) -> J {
        match self {
            Expr::Num(n) => J::i(*n),
            Expr::Id(s) => J::s(s.clone()),
            Expr::Un(op, e) => J::Arr(vec![J::s(op.text()), e.to_json()]),
            Expr::Bin(op, l, r) => J::Arr(vec![J::s(op.text()), l.to_json(), r.to_json()]),
            Expr::Ite(c, a, b) => {
                J::Arr(vec![J::s("ite"), c.to_json(), a.to_json(), b.to_json()])
            }
            Expr::Random(e) => J::Arr(vec![J::s("random"), e.to_json()]),
            Expr::SignExt(a, b) => J::Arr(vec![J::s("signExt"), a.to_json(), b.to_json()]),
        }
    }

    pub fn from_json(j: &J) -> Result<Expr, String> {
        match j {
            J::Int(n) => Ok(Expr::Num(*n as i64)),
            J::Str(s) => Ok(Expr::Id(s.clone())),
            J::Arr(a) if !a.is_empty() => {
                let head = a[0].as_str()?;
                match (head, a.len()) {
                    ("ite", 4) => Ok(Expr::ite(
                        Expr::from_json(&a[1])?,
                        Expr::from_json(&a[2])?,
                        Expr::from_json(&a[3])?,
                    )),
                    ("random", 2) => Ok(Expr::random(Expr::from_json(&a[1])?)),
                    ("signExt", 3) => Ok(Expr::SignExt(
                        Box::new(Expr::from_json(&a[1])?),
                        Box::new(Expr::from_json(&a[2])?),
                    )),
                    ("-", 2) => Ok(Expr::un(UnOp::Neg, Expr::from_json(&a[1])?)),
                    ("!", 2) => Ok(Expr::un(UnOp::Not, Expr::from_json(&a[1])?)),
                    ("~", 2) => Ok(Expr::un(UnOp::Inv, Expr::from_json(&a[1])?)),
                    (op, 3) => {
                        let op = BinOp::from_text(op).ok_or(format!("bad operator {op:?}"))?;
                        Ok(Expr::bin(
                            op,
                            Expr::from_json(&a[1])?,
                            Expr::from_json(&a[2])?,
                        ))
                    }
                    _ => Err(format!("bad expression {j:?}")),
                }
            }
            _ => Err(format!("bad expression {j:?}")),
        }
    }
}

#[derive(Clone, Debug, PartialEq, Eq, Hash)]
pub enum Entry {
    Num(i64),
    Expr(Expr),
    Bits(u8, Expr),
    X,
    Z,
    C,
}

impl Entry {
    /// number of header columns this entry fills
    pub fn width(&self) -> usize {
        match self {
            Entry::Bits(k, _) => *k as usize,
            _ => 1,
        }
    }
    pub fn print(&self, out: &mut String) {
        match self {
            Entry::Num(n) => out.push_str(&n.to_string()),
            Entry::Expr(e) => {
                out.push('(');
                e.print(out);
                out.push(')');
            }
            Entry::Bits(k, e) => {
                out.push_str(&format!("bits({k},"));
                e.print(out);
                out.push(')');
            }
            Entry::X => out.push('X'),
            Entry::Z => out.push('Z'),
            Entry::C => out.push('C'),
        }
    }
    pub fn expr(&self) -> Option<&Expr> {
        match self {
            Entry::Expr(e) | Entry::Bits(_, e) => Some(e),
            _ => None,
        }
    }
    pub fn to_json(&self) -> J {
        match self {
            Entry::Num(n) => J::i(*n),
            Entry::Expr(e) => J::Arr(vec![J::s("e"), e.to_json()]),
            Entry::Bits(k, e) => J::Arr(vec![J::s("bits"), J::i(*k as i64), e.to_json()]),
            Entry::X => J::s("X"),
            Entry::Z => J::s("Z"),
            Entry::C => J::s("C"),
        }
    }
    pub fn from_json(j: &J) -> Result<Entry, String> {
        match j {
            J::Int(n) => Ok(Entry::Num(*n as i64)),
            J::Str(s) => match s.as_str() {
                "X" => Ok(Entry::X),
                "Z" => Ok(Entry::Z),
                "C" => Ok(Entry::C),
                _ => Err(format!("bad entry {s:?}")),
            },
            J::Arr(a) if !a.is_empty() => match (a[0].as_str()?, a.len()) {
                ("e", 2) => Ok(Entry::Expr(Expr::from_json(&a[1])?)),
                ("bits", 3) => Ok(Entry::Bits(a[1].as_i64()? as u8, Expr::from_json(&a[2])?)),
                _ => Err(format!("bad entry {j:?}")),
            },
            _ => Err(format!("bad entry {j:?}")),
        }
    }
}

#[derive(Clone, Debug, PartialEq, Eq, Hash)]
pub enum Stmt {
    Let(String, Expr),
    Row(Vec<Entry>),
    Loop(String, Expr, Vec<Stmt>),
    Repeat(Expr, Vec<Entry>),
    While(Expr, Vec<Stmt>),
    ResetRandom,
    Declare(String, Expr),
}

#[derive(Clone, Debug, PartialEq, Eq, Hash)]
pub struct Program {
    pub header: Vec<String>,
    pub stmts: Vec<Stmt>,
}

fn print_entries(entries: &[Entry], out: &mut String) {
    for (i, e) in entries.iter().enumerate() {
        if i > 0 {
            out.push(' ');
        }
        e.print(out);
    }
}

fn print_block(stmts: &[Stmt], out: &mut String) {
    for s in stmts {
        match s {
            Stmt::Let(name, e) => {
                out.push_str("let ");
                out.push_str(name);
                out.push_str(" = ");
                e.print(out);
                out.push_str(";\n");
            }
            Stmt::Row(entries) => {
                print_entries(entries, out);
                out.push('\n');
            }
            Stmt::Loop(var, bound, body) => {
                out.push_str("loop(");
                out.push_str(var);
                out.push(',');
                bound.print(out);
                out.push_str(")\n");
                print_block(body, out);
                out.push_str("end loop\n");
            }
            Stmt::Repeat(bound, entries) => {
                out.push_str("repeat(");
                bound.print(out);
                out.push_str(") ");
                print_entries(entries, out);
                out.push('\n');
            }
            Stmt::While(cond, body) => {
                out.push_str("while(");
                cond.print(out);
                out.push_str(")\n");
                print_block(body, out);
                out.push_str("end while\n");
            }
            Stmt::ResetRandom => out.push_str("resetRandom;\n"),
            Stmt::Declare(name, e) => {
                out.push_str("declare ");
                out.push_str(name);
                out.push_str(" = ");
                e.print(out);
                out.push_str(";\n");
            }
        }
    }
}

impl Program {
    /// canonical text: single spaces, LF, trailing newline, decimal literals, fully
    /// parenthesised expressions
    pub fn to_text(&self) -> String {
        let mut out = String::new();
        out.push_str(&self.header.join(" "));
        out.push('\n');
        print_block(&self.stmts, &mut out);
        out
    }

    pub fn to_json(&self) -> J {
        J::obj()
            .set("header", J::arr(&self.header, |s| J::s(s.clone())))
            .set("stmts", stmts_to_json(&self.stmts))
    }

    pub fn from_json(j: &J) -> Result<Program, String> {
        let header = j
            .req("header")?
            .as_arr()?
            .iter()
            .map(|s| s.as_str().map(|s| s.to_string()))
            .collect::<Result<Vec<_>, _>>()?;
        Ok(Program {
            header,
            stmts: stmts_from_json(j.req("stmts")?)?,
        })
    }

    pub fn count_stmts(&self) -> usize {
        fn count(stmts: &[Stmt]) -> usize {
            stmts
                .iter()
                .map(|s| match s {
                    Stmt::Loop(_, _, b) | Stmt::While(_, b) => 1 + count(b),
                    _ => 1,
                })
                .sum()
        }
        count(&self.stmts)
    }

    /// visit every expression of the program
    pub fn exprs<'a>(&'a self, f: &mut dyn FnMut(&'a Expr)) {
        fn walk<'a>(stmts: &'a [Stmt], f: &mut dyn FnMut(&'a Expr)) {
            for s in stmts {
                match s {
                    Stmt::Let(_, e) | Stmt::Declare(_, e) => f(e),
                    Stmt::Row(entries) => entries.iter().filter_map(|e| e.expr()).for_each(&mut *f),
                    Stmt::Loop(_, b, body) | Stmt::While(b, body) => {
                        f(b);
                        walk(body, f)
                    }
                    Stmt::Repeat(b, entries) => {
                        f(b);
                        entries.iter().filter_map(|e| e.expr()).for_each(&mut *f)
                    }
                    Stmt::ResetRandom => {}
                }
            }
        }
        walk(&self.stmts, f)
    }

    pub fn declares(&self) -> Vec<(&str, &Expr)> {
        fn walk<'a>(stmts: &'a [Stmt], out: &mut Vec<(&'a str, &'a Expr)>) {
            for s in stmts {
                match s {
                    Stmt::Declare(n, e) => out.push((n.as_str(), e)),
                    Stmt::Loop(_, _, b) | Stmt::While(_, b) => walk(b, out),
                    _ => {}
                }
            }
        }
        let mut out = vec![];
        walk(&self.stmts, &mut out);
        out
    }
}

pub fn stmts_to_json(stmts: &[Stmt]) -> J {
    J::arr(stmts, |s| match s {
        Stmt::Let(n, e) => J::Arr(vec![J::s("let"), J::s(n.clone()), e.to_json()]),
        Stmt::Row(entries) => J::Arr(vec![J::s("row"), J::arr(entries, |e| e.to_json())]),
        Stmt::Loop(v, b, body) => J::Arr(vec![
            J::s("loop"),
            J::s(v.clone()),
            b.to_json(),
            stmts_to_json(body),
        ]),
        Stmt::Repeat(b, entries) => J::Arr(vec![
            J::s("repeat"),
            b.to_json(),
            J::arr(entries, |e| e.to_json()),
        ]),
        Stmt::While(c, body) => J::Arr(vec![J::s("while"), c.to_json(), stmts_to_json(body)]),
        Stmt::ResetRandom => J::Arr(vec![J::s("resetRandom")]),
        Stmt::Declare(n, e) => J::Arr(vec![J::s("declare"), J::s(n.clone()), e.to_json()]),
    })
}

pub fn stmts_from_json(j: &J) -> Result<Vec<Stmt>, String> {
    j.as_arr()?
        .iter()
        .map(|s| {
            let a = s.as_arr()?;
            if a.is_empty() {
                return Err("empty statement".to_string());
            }
            let entries = |j: &J| -> Result<Vec<Entry>, String> {
                j.as_arr()?.iter().map(Entry::from_json).collect()
            };
            match (a[0].as_str()?, a.len()) {
                ("let", 3) => Ok(Stmt::Let(a[1].as_str()?.into(), Expr::from_json(&a[2])?)),
                ("row", 2) => Ok(Stmt::Row(entries(&a[1])?)),
                ("loop", 4) => Ok(Stmt::Loop(
                    a[1].as_str()?.into(),
                    Expr::from_json(&a[2])?,
                    stmts_from_json(&a[3])?,
                )),
                ("repeat", 3) => Ok(Stmt::Repeat(Expr::from_json(&a[1])?, entries(&a[2])?)),
                ("while", 3) => Ok(Stmt::While(
                    Expr::from_json(&a[1])?,
                    stmts_from_json(&a[2])?,
                )),
                ("resetRandom", 1) => Ok(Stmt::ResetRandom),
                ("declare", 3) => Ok(Stmt::Declare(
                    a[1].as_str()?.into(),
                    Expr::from_json(&a[2])?,
                )),
                _ => Err(format!("bad statement {s:?}")),
            }
        })
        .collect()
}

// ---- value / signal JSON helpers -------------------------------------------------------

impl InVal {
    pub fn to_json(self) -> J {
        match self {
            InVal::Num(n) => J::i(n),
            InVal::Z => J::s("Z"),
        }
    }
    pub fn from_json(j: &J) -> Result<InVal, String> {
        match j {
            J::Int(n) => Ok(InVal::Num(*n as i64)),
            J::Str(s) if s == "Z" => Ok(InVal::Z),
            _ => Err(format!("bad input value {j:?}")),
        }
    }
}

impl OutVal {
    pub fn to_json(self) -> J {
        match self {
            OutVal::Num(n) => J::i(n),
            OutVal::Z => J::s("Z"),
            OutVal::X => J::s("X"),
        }
    }
    pub fn from_json(j: &J) -> Result<OutVal, String> {
        match j {
            J::Int(n) => Ok(OutVal::Num(*n as i64)),
            J::Str(s) if s == "Z" => Ok(OutVal::Z),
            J::Str(s) if s == "X" => Ok(OutVal::X),
            _ => Err(format!("bad output value {j:?}")),
        }
    }
}

impl ExpVal {
    pub fn to_json(self) -> J {
        match self {
            ExpVal::Num(n) => J::i(n),
            ExpVal::Z => J::s("Z"),
            ExpVal::X => J::s("X"),
        }
    }
}

impl SigSpec {
    pub fn to_json(&self) -> J {
        let kind = match self.kind {
            SigKind::In => "in",
            SigKind::Out => "out",
            SigKind::Bidir => "bidir",
        };
        let mut j = J::obj()
            .set("name", J::s(self.name.clone()))
            .set("bits", J::i(self.bits as i64))
            .set("kind", J::s(kind));
        if self.is_input() {
            j.put("default", self.default.to_json());
        }
        j
    }
    pub fn from_json(j: &J) -> Result<SigSpec, String> {
        let kind = match j.req("kind")?.as_str()? {
            "in" => SigKind::In,
            "out" => SigKind::Out,
            "bidir" => SigKind::Bidir,
            k => return Err(format!("bad signal kind {k:?}")),
        };
        Ok(SigSpec {
            name: j.req("name")?.as_str()?.to_string(),
            bits: j.req("bits")?.as_i64()? as u32,
            kind,
            default: match j.get("default") {
                Some(d) => InVal::from_json(d)?,
                None => InVal::Num(0),
            },
        })
    }
}

/// `value mod 2^bits` as the library is specified to reduce program values (C07); the
/// reference uses it so that claimed checks agree with the library on in-range values.
pub fn mask(value: i64, bits: u32) -> i64 {
    if bits >= 64 {
        value
    } else {
        value & (((1u64 << bits) - 1) as i64)
    }
}
