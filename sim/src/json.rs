//! Minimal JSON value, writer and parser (no dependencies). Objects keep insertion order,
//! so that what we write is deterministic.

use std::fmt::Write as _;

#[derive(Clone, Debug, PartialEq)]
pub enum J {
    Null,
    Bool(bool),
    Int(i128),
    Float(f64),
    Str(String),
    Arr(Vec<J>),
    Obj(Vec<(String, J)>),
}

impl J {
    pub fn obj() -> J {
        J::Obj(vec![])
    }
    pub fn s(x: impl Into<String>) -> J {
        J::Str(x.into())
    }
    pub fn i(x: impl Into<i128>) -> J {
        J::Int(x.into())
    }
    pub fn u(x: usize) -> J {
        J::Int(x as i128)
    }
    pub fn arr<T>(items: impl IntoIterator<Item = T>, f: impl Fn(T) -> J) -> J {
        J::Arr(items.into_iter().map(f).collect())
    }
    pub fn set(mut self, k: &str, v: J) -> J {
        if let J::Obj(ref mut fields) = self {
            if let Some(f) = fields.iter_mut().find(|f| f.0 == k) {
                f.1 = v;
            } else {
                fields.push((k.to_string(), v));
            }
        } else {
            panic!("set on non-object");
        }
        self
    }
    pub fn put(&mut self, k: &str, v: J) {
        if let J::Obj(ref mut fields) = self {
            if let Some(f) = fields.iter_mut().find(|f| f.0 == k) {
                f.1 = v;
            } else {
                fields.push((k.to_string(), v));
            }
        } else {
            panic!("put on non-object");
        }
    }
    pub fn get(&self, k: &str) -> Option<&J> {
        match self {
            J::Obj(fields) => fields.iter().find(|f| f.0 == k).map(|f| &f.1),
            _ => None,
        }
    }
    pub fn req(&self, k: &str) -> Result<&J, String> {
        self.get(k).ok_or_else(|| format!("missing key {k:?}"))
    }
    pub fn as_str(&self) -> Result<&str, String> {
        match self {
            J::Str(s) => Ok(s),
            _ => Err(format!("expected string, found {self:?}")),
        }
    }
    pub fn as_i128(&self) -> Result<i128, String> {
        match self {
            J::Int(i) => Ok(*i),
            _ => Err(format!("expected integer, found {self:?}")),
        }
    }
    pub fn as_i64(&self) -> Result<i64, String> {
        Ok(self.as_i128()? as i64)
    }
    pub fn as_u64(&self) -> Result<u64, String> {
        Ok(self.as_i128()? as u64)
    }
    pub fn as_usize(&self) -> Result<usize, String> {
        Ok(self.as_i128()? as usize)
    }
    pub fn as_bool(&self) -> Result<bool, String> {
        match self {
            J::Bool(b) => Ok(*b),
            _ => Err(format!("expected bool, found {self:?}")),
        }
    }
    pub fn as_arr(&self) -> Result<&[J], String> {
        match self {
            J::Arr(a) => Ok(a),
            _ => Err(format!("expected array, found {self:?}")),
        }
    }
    pub fn is_null(&self) -> bool {
        matches!(self, J::Null)
    }

    pub fn to_compact(&self) -> String {
        let mut s = String::new();
        self.write(&mut s, None, 0);
        s
    }
    pub fn to_pretty(&self) -> String {
        let mut s = String::new();
        self.write(&mut s, Some(1), 0);
        s.push('\n');
        s
    }

    fn is_scalar(&self) -> bool {
        !matches!(self, J::Arr(_) | J::Obj(_))
    }

    fn write(&self, out: &mut String, indent: Option<usize>, depth: usize) {
        match self {
            J::Null => out.push_str("null"),
            J::Bool(b) => out.push_str(if *b { "true" } else { "false" }),
            J::Int(i) => {
                let _ = write!(out, "{i}");
            }
            J::Float(f) => {
                if f.is_finite() {
                    if f.fract() == 0.0 && f.abs() < 1e15 {
                        let _ = write!(out, "{f:.1}");
                    } else {
                        let _ = write!(out, "{f}");
                    }
                } else {
                    out.push_str("null");
                }
            }
            J::Str(s) => write_str(out, s),
            J::Arr(items) => {
                if items.is_empty() {
                    out.push_str("[]");
                    return;
                }
                // arrays of scalars stay on one line
                let inline = indent.is_none() || items.iter().all(|i| i.is_scalar());
                out.push('[');
                for (n, item) in items.iter().enumerate() {
                    if n > 0 {
                        out.push(',');
                        if inline && indent.is_some() {
                            out.push(' ');
                        }
                    }
                    if !inline {
                        newline(out, indent, depth + 1);
                    }
                    item.write(out, indent, depth + 1);
                }
                if !inline {
                    newline(out, indent, depth);
                }
                out.push(']');
            }
            J::Obj(fields) => {
                if fields.is_empty() {
                    out.push_str("{}");
                    return;
                }
                out.push('{');
                for (n, (k, v)) in fields.iter().enumerate() {
                    if n > 0 {
                        out.push(',');
                    }
                    newline(out, indent, depth + 1);
                    write_str(out, k);
                    out.push(':');
                    if indent.is_some() {
                        out.push(' ');
                    }
                    v.write(out, indent, depth + 1);
                }
                newline(out, indent, depth);
                out.push('}');
            }
        }
    }
}

fn newline(out: &mut String, indent: Option<usize>, depth: usize) {
    if let Some(w) = indent {
        out.push('\n');
        for _ in 0..(w * depth) {
            out.push(' ');
        }
    }
}

fn write_str(out: &mut String, s: &str) {
    out.push('"');
    for c in s.chars() {
        match c {
            '"' => out.push_str("\\\""),
            '\\' => out.push_str("\\\\"),
            '\n' => out.push_str("\\n"),
            '\r' => out.push_str("\\r"),
            '\t' => out.push_str("\\t"),
            c if (c as u32) < 0x20 => {
                let _ = write!(out, "\\u{:04x}", c as u32);
            }
            c => out.push(c),
        }
    }
    out.push('"');
}

pub fn parse(text: &str) -> Result<J, String> {
    let mut p = P {
        b: text.as_bytes(),
        i: 0,
    };
    p.ws();
    let v = p.value()?;
    p.ws();
    if p.i != p.b.len() {
        return Err(format!("trailing data at byte {}", p.i));
    }
    Ok(v)
}

struct P<'a> {
    b: &'a [u8],
    i: usize,
}

impl<'a> P<'a> {
    fn ws(&mut self) {
        while self.i < self.b.len() && matches!(self.b[self.i], b' ' | b'\n' | b'\r' | b'\t') {
            self.i += 1;
        }
    }
    fn eat(&mut self, c: u8) -> Result<(), String> {
        if self.i < self.b.len() && self.b[self.i] == c {
            self.i += 1;
            Ok(())
        } else {
            Err(format!("expected {:?} at byte {}", c as char, self.i))
        }
    }
    fn lit(&mut self, word: &str, v: J) -> Result<J, String> {
        if self.b[self.i..].starts_with(word.as_bytes()) {
            self.i += word.len();
            Ok(v)
        } else {
            Err(format!("bad literal at byte {}", self.i))
        }
    }
    fn value(&mut self) -> Result<J, String> {
        if self.i >= self.b.len() {
            return Err("unexpected end".into());
        }
        match self.b[self.i] {
            b'n' => self.lit("null", J::Null),
            b't' => self.lit("true", J::Bool(true)),
            b'f' => self.lit("false", J::Bool(false)),
            b'"' => Ok(J::Str(self.string()?)),
            b'[' => {
                self.i += 1;
                let mut items = vec![];
                self.ws();
                if self.i < self.b.len() && self.b[self.i] == b']' {
                    self.i += 1;
                    return Ok(J::Arr(items));
                }
                loop {
                    self.ws();
                    items.push(self.value()?);
                    self.ws();
                    if self.i < self.b.len() && self.b[self.i] == b',' {
                        self.i += 1;
                        continue;
                    }
                    self.eat(b']')?;
                    return Ok(J::Arr(items));
                }
            }
            b'{' => {
                self.i += 1;
                let mut fields = vec![];
                self.ws();
                if self.i < self.b.len() && self.b[self.i] == b'}' {
                    self.i += 1;
                    return Ok(J::Obj(fields));
                }
                loop {
                    self.ws();
                    let k = self.string()?;
                    self.ws();
                    self.eat(b':')?;
                    self.ws();
                    let v = self.value()?;
                    fields.push((k, v));
                    self.ws();
                    if self.i < self.b.len() && self.b[self.i] == b',' {
                        self.i += 1;
                        continue;
                    }
                    self.eat(b'}')?;
                    return Ok(J::Obj(fields));
                }
            }
            _ => self.number(),
        }
    }
    fn number(&mut self) -> Result<J, String> {
        let start = self.i;
        let mut float = false;
        while self.i < self.b.len() {
            match self.b[self.i] {
                b'0'..=b'9' | b'-' | b'+' => self.i += 1,
                b'.' | b'e' | b'E' => {
                    float = true;
                    self.i += 1
                }
                _ => break,
            }
        }
        let s = std::str::from_utf8(&self.b[start..self.i]).map_err(|e| e.to_string())?;
        if s.is_empty() {
            return Err(format!("unexpected byte at {}", start));
        }
        if float {
            s.parse::<f64>().map(J::Float).map_err(|e| e.to_string())
        } else {
            s.parse::<i128>().map(J::Int).map_err(|e| e.to_string())
        }
    }
    fn string(&mut self) -> Result<String, String> {
        self.eat(b'"')?;
        let mut out = String::new();
        loop {
            if self.i >= self.b.len() {
                return Err("unterminated string".into());
            }
            let c = self.b[self.i];
            match c {
                b'"' => {
                    self.i += 1;
                    return Ok(out);
                }
                b'\\' => {
                    self.i += 1;
                    let e = *self.b.get(self.i).ok_or("bad escape")?;
                    self.i += 1;
                    match e {
                        b'"' => out.push('"'),
                        b'\\' => out.push('\\'),
                        b'/' => out.push('/'),
                        b'n' => out.push('\n'),
                        b'r' => out.push('\r'),
                        b't' => out.push('\t'),
                        b'b' => out.push('\u{8}'),
                        b'f' => out.push('\u{c}'),
                        b'u' => {
                            let hex = std::str::from_utf8(
                                self.b.get(self.i..self.i + 4).ok_or("bad \\u escape")?,
                            )
                            .map_err(|e| e.to_string())?;
                            let cp = u32::from_str_radix(hex, 16).map_err(|e| e.to_string())?;
                            self.i += 4;
                            out.push(char::from_u32(cp).unwrap_or('\u{fffd}'));
                        }
                        _ => return Err("bad escape".into()),
                    }
                }
                _ => {
                    // copy one UTF-8 scalar
                    let len = match c {
                        0x00..=0x7f => 1,
                        0xc0..=0xdf => 2,
                        0xe0..=0xef => 3,
                        _ => 4,
                    };
                    let chunk = self.b.get(self.i..self.i + len).ok_or("bad utf-8")?;
                    out.push_str(std::str::from_utf8(chunk).map_err(|e| e.to_string())?);
                    self.i += len;
                }
            }
        }
    }
}
